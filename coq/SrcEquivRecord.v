(* SrcEquivRecord.v — CircularRecord.__rshift__ / __lshift__ as regenerated from
   moclo/record.py (Gen/Src.v) compute rot_record / rotl_record of the hand-written model
   (Record.v) on sequence, feature table and per-letter tracks, for all records and all k. *)
From MV Require Import Base RotLemmas Record Regex Typing Circle Annot Py PyObj SrcEquivRegex.
From MV.Gen Require Import Src.
From Coq Require Import String.
Local Open Scope Z_scope.

(* ---------- loops that append one element per iteration -------------------- *)

Lemma py_for0_map {X Y} (f : X -> Y) (body : X -> list Y -> exc (list Y)) :
  (forall x st, body x st = Ok (st ++ [f x])) ->
  forall xs st, py_for0 xs st body = Ok (st ++ map f xs).
Proof.
  intros Hb. induction xs as [|x xs IH]; intros st; cbn [py_for0 map].
  - now rewrite app_nil_r.
  - rewrite Hb, IH, <- app_assoc. reflexivity.
Qed.

Lemma py_mapM_map {A B} (f : A -> B) (g : A -> exc B) (l : list A) :
  (forall x, In x l -> g x = Ok (f x)) -> py_mapM g l = Ok (map f l).
Proof.
  induction l as [|x l IH]; intros H; cbn [py_mapM map]; [reflexivity|].
  rewrite H by (left; reflexivity). rewrite IH by (intros; apply H; right; assumption). reflexivity.
Qed.

(* ---------- v[-i:] + v[:-i] is the right rotation --------------------------- *)

Lemma py_slice_neg_from {A} (v : list A) (i : Z) :
  0 < i <= py_len v -> py_slice v (Some (- i)) None = skipn (List.length v - Z.to_nat i) v.
Proof.
  intros H. unfold py_slice, py_norm, py_len in *.
  destruct (Z.ltb_spec (- i) 0); [|lia].
  rewrite Z.max_l by lia.
  replace (Z.to_nat (- i + Z.of_nat (List.length v))) with (List.length v - Z.to_nat i)%nat by lia.
  apply firstn_all2. rewrite skipn_length. lia.
Qed.

Lemma py_slice_neg_to {A} (v : list A) (i : Z) :
  0 < i <= py_len v -> py_slice v None (Some (- i)) = firstn (List.length v - Z.to_nat i) v.
Proof.
  intros H. unfold py_slice, py_norm, py_len in *.
  destruct (Z.ltb_spec (- i) 0); [|lia].
  rewrite Z.max_l by lia. cbn [Z.to_nat skipn]. f_equal. lia.
Qed.

Lemma rotr_reduced {A} (v : list A) (i : Z) :
  0 <= i < py_len v ->
  rotr i v = skipn (List.length v - Z.to_nat i) v ++ firstn (List.length v - Z.to_nat i) v.
Proof.
  intros H. unfold rotr, py_len in *. now rewrite Z.mod_small by lia.
Qed.

(* ---------- one feature ------------------------------------------------------ *)

Lemma feature_eta f : F (fsource f) (ftype f) (fquals f) (floc f) = f.
Proof. now destruct f. Qed.

Definition wrap_body (n : Z) (part_ : pyloc) (_newloc_ : list pyloc) : exc (list pyloc) :=
  if (ploc_end part_ >=? n) && (ploc_start part_ >=? n) then
    t11 <- py_floordiv (ploc_start part_) n ;;
    Ok (_newloc_ ++ [mk_FeatureLocation (ploc_start part_ - py_mul t11 n) (ploc_end part_ - py_mul t11 n)
                                        (ploc_strand part_) (ploc_ref part_) (ploc_ref_db part_)])
  else Ok (_newloc_ ++ [part_]).

Lemma wrap_body_simple n p st : n <> 0 ->
  wrap_body n (LSimple p) st = Ok (st ++ [LSimple (wrap_part n p)]).
Proof.
  intros Hn. unfold wrap_body, wrap_part, ploc_end, ploc_start, ploc_strand, loc_end, loc_start.
  cbn [loc_parts_raw fold_left].
  rewrite !Z.geb_leb.
  destruct ((n <=? pend p) && (n <=? pstart p)); [|reflexivity].
  unfold py_floordiv. destruct (Z.eqb_spec n 0); [contradiction|]. cbn [bind].
  unfold mk_FeatureLocation, py_mul, PyMul_Z. reflexivity.
Qed.

Lemma loc_parts_shift l idx :
  loc_parts (ploc_shift l idx) = map LSimple (map (shift_part idx) (loc_parts_raw l)).
Proof. destruct l; reflexivity. Qed.

Lemma concat_singletons {A B} (f : A -> B) (l : list A) : List.concat (map (fun x => [f x]) l) = map f l.
Proof. induction l; cbn; congruence. Qed.

Lemma py_for0_premap {X X' S} (g : X -> X') (body : X' -> S -> exc S) :
  forall xs st, py_for0 (map g xs) st body = py_for0 xs st (fun x st => body (g x) st).
Proof.
  induction xs as [|x xs IH]; intros st; cbn [map py_for0]; [reflexivity|].
  destruct (body (g x) st); [apply IH|reflexivity].
Qed.

Lemma rot_loc_ok idx n (l : pyloc) : n <> 0 -> loc_parts_raw l <> [] ->
  exists l',
    (_newloc_ <- py_for0 (loc_parts (ploc_shift l idx)) [] (wrap_body n) ;;
     t13 <- (if py_eq (py_len_of _newloc_) 1 then t12 <- py_getitem _newloc_ 0 ;; Ok t12
             else Ok (mk_CompoundLocation _newloc_)) ;;
     Ok (Some t13)) = Ok (Some l')
    /\ loc_parts_raw l' = map (rot_part idx n) (loc_parts_raw l).
Proof.
  intros Hn Hne. rewrite loc_parts_shift, map_map, py_for0_premap.
  rewrite (py_for0_map (fun p => LSimple (wrap_part n (shift_part idx p)))) by (intros; now apply wrap_body_simple).
  cbn [app bind].
  set (ps := loc_parts_raw l) in *.
  unfold py_len_of, PyLen_list, py_len, py_eq, PyEq_Z. rewrite map_length.
  destruct ps as [|p [|q ps]]; [contradiction| |].
  - cbn. eexists; split; reflexivity.
  - replace (Z.of_nat (List.length (p :: q :: ps)) =? 1) with false
      by (symmetry; apply Z.eqb_neq; cbn [List.length]; lia).
    cbn [bind]. eexists; split; [reflexivity|].
    unfold mk_CompoundLocation. rewrite map_map. cbn [loc_parts_raw].
    now rewrite concat_singletons.
Qed.

(* the body of the loop over self.features, as generated *)
Definition feature_body (idx n : Z) (feature_ : feature) (newfeats : list feature) : exc (list feature) :=
  newloc <-
  match feat_location feature_ with
  | Some loc_ =>
      if ftype_is_source (feat_type feature_) &&
         (py_eq (py_len_of (loc_parts loc_)) 1 && (py_eq (ploc_start loc_) 0 && py_eq (ploc_end loc_) n))
      then Ok (Some loc_)
      else
        t10 <- py_addm loc_ idx ;;
        _newloc_ <- py_for0 (loc_parts t10) [] (wrap_body n) ;;
        t13 <- (if py_eq (py_len_of _newloc_) 1 then t12 <- py_getitem _newloc_ 0 ;; Ok t12
                else Ok (mk_CompoundLocation _newloc_)) ;;
        Ok (Some t13)
  | None => Ok None
  end ;;
  Ok (newfeats ++ [mk_SeqFeature newloc (feat_type feature_) (feat_id feature_) (feat_qualifiers feature_)]).

Lemma len_parts_simple p : py_eq (py_len_of (loc_parts (LSimple p))) 1 = true.
Proof. reflexivity. Qed.
Lemma len_parts_compound p q ps : py_eq (py_len_of (loc_parts (LCompound (p :: q :: ps)))) 1 = false.
Proof.
  unfold py_eq, PyEq_Z, py_len_of, PyLen_list, py_len, loc_parts. cbn [loc_parts_raw map List.length].
  apply Z.eqb_neq. lia.
Qed.
Lemma start_simple p : py_eq (ploc_start (LSimple p)) 0 = (pstart p =? 0).
Proof. reflexivity. Qed.
Lemma end_simple p n : py_eq (ploc_end (LSimple p)) n = (pend p =? n).
Proof. reflexivity. Qed.

Lemma feature_body_ok idx n f st : n <> 0 ->
  feature_body idx n f st = Ok (st ++ [rot_feature idx n f]).
Proof.
  intros Hn. unfold feature_body, rot_feature, keeps_loc, feat_location.
  destruct f as [src ty q l]. cbn [floc fsource ftype fquals feat_type ftype_is_source feat_id feat_qualifiers].
  destruct l as [|p [|p2 ps]].
  - cbn. rewrite andb_false_r. reflexivity.
  - rewrite len_parts_simple, start_simple, end_simple. cbn [andb].
    destruct (src && ((pstart p =? 0) && (pend p =? n))) eqn:E.
    + cbn [bind]. reflexivity.
    + destruct (rot_loc_ok idx n (LSimple p) Hn) as (l' & El & Hl); [cbn; discriminate|].
      unfold py_addm at 1, PyAddM_loc. cbn [bind].
      rewrite El. cbn [bind].
      unfold mk_SeqFeature, loc_of_pyloc. rewrite Hl. reflexivity.
  - rewrite len_parts_compound. cbn [andb]. rewrite andb_false_r.
    destruct (rot_loc_ok idx n (LCompound (p :: p2 :: ps)) Hn) as (l' & El & Hl); [cbn; discriminate|].
    unfold py_addm at 1, PyAddM_loc. cbn [bind].
    rewrite El. cbn [bind].
    unfold mk_SeqFeature, loc_of_pyloc. rewrite Hl. reflexivity.
Qed.

(* ---------- the whole record -------------------------------------------------- *)

Definition well_tracked (r : pyrecord) : Prop :=
  Forall (fun v : list Z => List.length v = List.length (pr_seq r)) (pr_letter_annotations r).

Lemma seq_getslice s lo hi :
  py_getslice (mk_Seq s) lo hi = Ok (mk_Seq (py_slice s lo hi)).
Proof. reflexivity. Qed.

Lemma seq_addm a b : py_addm (mk_Seq a) (mk_Seq b) = Ok (mk_Seq (a ++ b)).
Proof. reflexivity. Qed.

Theorem CircularRecord_rshift_eq f rec k :
  pr_seq rec <> [] -> well_tracked rec ->
  exists r', CircularRecord_rshift (S f) rec k = Ok r'
    /\ to_record r' = rot_record k (to_record rec)
    /\ pr_id r' = pr_id rec /\ pr_annotations r' = pr_annotations rec
    /\ (pr_kind rec = KCircularRecord -> pr_kind r' = KCircularRecord).
Proof.
  intros Hne Htr.
  cbn [CircularRecord_rshift].
  set (s := pr_seq rec) in *.
  assert (Hlen : List.length s <> 0%nat) by (destruct s; cbn; congruence).
  set (n := Z.of_nat (List.length s)).
  change (py_len_of (py_seq rec)) with n. change (py_len_of rec) with n.
  unfold py_mod. destruct (Z.eqb_spec n 0) as [|Hn]; [lia|]. cbn [bind].
  set (idx := k mod n).
  assert (Hidx : 0 <= idx < n) by (apply Z.mod_pos_bound; lia).
  unfold rot_record. cbn [to_record rseq rfeats rtracks]. fold s. unfold zlen. fold n. fold idx.
  unfold py_eq at 1, PyEq_Z.
  destruct (Z.eqb_spec idx 0) as [E0|E0].
  - exists rec. repeat split; auto.
  - destruct (Z.ltb_spec idx 0); [lia|].
    change (py_seq rec) with (mk_Seq s).
    rewrite !seq_getslice. cbn [bind]. rewrite seq_addm. cbn [bind].
    rewrite py_slice_neg_from, py_slice_neg_to by (unfold py_len; lia).
    rewrite <- rotr_reduced by (unfold py_len; lia).
    change (py_len_of (mk_Seq (rotr idx s))) with (Z.of_nat (List.length (rotr idx s))).
    rewrite rotr_length. fold n.
    rewrite (py_mapM_map (rotr idx)).
    2:{ intros v Hv. unfold py_getslice, PyGetSlice_list. cbn [bind].
        unfold py_addm, PyAddM_list. cbn [bind].
        pose proof (proj1 (Forall_forall _ _) Htr v Hv) as Hlv. cbn beta in Hlv. fold s in Hlv.
        rewrite py_slice_neg_from, py_slice_neg_to by (unfold py_len; lia).
        rewrite <- rotr_reduced by (unfold py_len; lia). reflexivity. }
    cbn [bind].
    change (py_for0 (pr_features rec) [] _) with (py_for0 (pr_features rec) [] (feature_body idx n)).
    rewrite (py_for0_map (rot_feature idx n)) by (intros; now apply feature_body_ok).
    cbn [bind app]. eexists. split; [reflexivity|]. cbn. repeat split; auto.
Qed.

(* left rotation: record << k  is  record >> (-k mod n) *)
Theorem CircularRecord_lshift_eq f rec k :
  pr_seq rec <> [] -> well_tracked rec ->
  exists r', CircularRecord_lshift (S (S f)) rec k = Ok r'
    /\ to_record r' = rotl_record k (to_record rec)
    /\ pr_id r' = pr_id rec /\ pr_annotations r' = pr_annotations rec
    /\ (pr_kind rec = KCircularRecord -> pr_kind r' = KCircularRecord).
Proof.
  intros Hne Htr. cbn [CircularRecord_lshift].
  assert (Hlen : List.length (pr_seq rec) <> 0%nat) by (destruct (pr_seq rec); cbn; congruence).
  change (py_len_of (py_seq rec)) with (Z.of_nat (List.length (pr_seq rec))).
  unfold py_mod. destruct (Z.eqb_spec (Z.of_nat (List.length (pr_seq rec))) 0); [lia|]. cbn [bind].
  destruct (CircularRecord_rshift_eq f rec (- k mod Z.of_nat (List.length (pr_seq rec))) Hne Htr)
    as (r' & E & H1 & H2).
  rewrite E. cbn [bind]. exists r'. split; [reflexivity|]. split; [|exact H2].
  rewrite H1. reflexivity.
Qed.

(* ---------- the constructor and the reverse complement ------------------------------ *)

(* CircularRecord(record), as translated from __init__ (record branch, then fields branch): a
   copy of the record as a CircularRecord; refused with ValueError when its topology annotation
   is not "circular" (any letter case); an absent annotation is accepted *)
Theorem CircularRecord_new_eq r : CircularRecord_new r = bio_CircularRecord_of r.
Proof.
  unfold CircularRecord_new, CircularRecord_init_record, CircularRecord_init_fields, bio_CircularRecord_of,
    rec_annotations_dict, py_deepcopy, ann_get_topology, bio_SeqRecord_init, py_eq, PyEq_string.
  cbn [bind py_seq pr_seq mk_Seq].
  destruct (an_topology (pr_annotations r)) as [t|]; cbn [bind].
  - destruct (String.eqb (str_lower t) "circular"); reflexivity.
  - reflexivity.
Qed.

(* reverse_complement(), as translated: Biopython's reverse complement of the record (sequence
   reverse-complemented, every feature flipped and the table sorted by start, tracks reversed),
   wrapped again as a CircularRecord; annotations are not carried (annotations=False) *)
Theorem CircularRecord_reverse_complement_eq r :
  exists r', CircularRecord_reverse_complement r false false false true false true false = Ok r'
    /\ pr_kind r' = KCircularRecord /\ to_record r' = rc_record (to_record r) /\ pr_id r' = pr_id r.
Proof.
  unfold CircularRecord_reverse_complement. rewrite CircularRecord_new_eq.
  unfold bio_CircularRecord_of, bio_reverse_complement. cbn.
  eexists. repeat split.
Qed.
