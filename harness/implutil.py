# coding: utf-8
"""Worker-side helpers: resolve class specifications to moclo classes, build
entities, run assemblies and canonicalise what is observed.

class spec: {"kind": "generic", "role": "module"|"vector", "enzyme": "BsaI"}
            {"kind": "part", "role": ..., "enzyme": ..., "sig": [up, down]}
            {"kind": "kit", "kit": "ytk", "name": "YTKPart1"}
            {"kind": "custom", "role": ..., "enzyme": ..., "structure": "..."}"""
import importlib
import json
import warnings

_CLASSES = {}


def get_class(spec, cache=True):
    key = json.dumps(spec, sort_keys=True)
    if cache and key in _CLASSES:
        return _CLASSES[key]
    from Bio import Restriction
    from moclo.core import AbstractModule, AbstractVector, AbstractPart
    kind = spec["kind"]
    if kind == "kit":
        cls = getattr(importlib.import_module("moclo.kits." + spec["kit"]), spec["name"])
    elif kind == "sub":
        # a subclass created at run time, optionally with its own signature
        attrs = {}
        if spec.get("sig"):
            attrs["signature"] = tuple(spec["sig"])
        if spec.get("cutter"):
            attrs["cutter"] = getattr(Restriction, spec["cutter"])
        cls = type(str(spec["name"]), (get_class(spec["parent"], cache),), attrs)
    else:
        base = AbstractModule if spec["role"] == "module" else AbstractVector
        cutter = getattr(Restriction, spec["enzyme"])
        if kind == "generic":
            cls = type(str("G_%s_%s" % (spec["role"], spec["enzyme"])), (base,), {"cutter": cutter})
        elif kind == "part":
            cls = type(str(spec.get("name") or "P_%s_%s" % (spec["role"], spec["enzyme"])), (AbstractPart, base),
                       {"cutter": cutter, "signature": tuple(spec["sig"])})
        elif kind == "custom":
            text = spec["structure"]
            cls = type(str(spec.get("name") or "X_%s_%s" % (spec["role"], spec["enzyme"])), (base,),
                       {"cutter": cutter, "structure": classmethod(lambda c, _t=text: _t)})
        else:
            raise ValueError(kind)
    if cache:
        _CLASSES[key] = cls
    return cls


def prime_bases(cls, seq):
    """type the record with every concrete base class of cls first (a parent before its subclass)"""
    from moclo._utils import isabstract
    for b in cls.__mro__[1:]:
        if b is object or not hasattr(b, "structure") or isabstract(b):
            continue
        try:
            b(mk_circular(seq, "prime")).is_valid()
        except Exception:  # noqa
            pass


def mk_circular(seq, id_="rec", features=None, annotations=None):
    from Bio.Seq import Seq
    from moclo.record import CircularRecord
    return CircularRecord(Seq(seq), id=id_, name=id_, description=id_,
                          features=list(features or []), annotations=dict(annotations or {}))


def mk_entity(elem, id_):
    """elem: {"cls": spec, "seq": str} (+ optional "rec": JSON record of recutil)"""
    cls = get_class(elem["cls"])
    if "rec" in elem:
        from harness import recutil
        rec = recutil.mk_record(elem["rec"])
    elif "id" in elem and elem["id"] is None:
        # a record built without identifiers (Biopython's "<unknown id>" defaults)
        from Bio.Seq import Seq
        from moclo.record import CircularRecord
        rec = CircularRecord(Seq(elem["seq"]))
    else:
        rec = mk_circular(elem["seq"], elem.get("id", id_))
    return cls(rec)


def exc_class(e):
    from moclo import errors
    if isinstance(e, errors.DuplicateModules):
        return "duplicate"
    if isinstance(e, errors.MissingModule):
        return "missing"
    if isinstance(e, errors.InvalidSequence):
        return "invalid"
    return "other"


def typed_info(ent):
    """what the implementation's typing reports for one entity"""
    out = {}
    try:
        out["valid"] = bool(ent.is_valid())
    except Exception as e:  # noqa
        out["valid"] = None
        out["valid_exc"] = type(e).__name__
    for key, fn in (("up", "overhang_start"), ("down", "overhang_end")):
        try:
            out[key] = str(getattr(ent, fn)())
        except Exception as e:  # noqa
            out[key] = None
            out[key + "_exc"] = exc_class(e) + ":" + type(e).__name__
    try:
        out["target"] = str(ent.target_sequence().seq)
    except Exception as e:  # noqa
        out["target"] = None
        out["target_exc"] = exc_class(e) + ":" + type(e).__name__
    if hasattr(ent, "placeholder_sequence"):
        try:
            out["placeholder"] = str(ent.placeholder_sequence().seq)
        except Exception as e:  # noqa
            out["placeholder"] = None
            out["placeholder_exc"] = exc_class(e) + ":" + type(e).__name__
    return out


def observe_assembly(vector, modules, **kw):
    """vector.assemble(*modules): canonical observation"""
    from moclo import errors
    with warnings.catch_warnings(record=True) as caught:
        warnings.simplefilter("always")
        try:
            prod = vector.assemble(*modules, **kw)
        except Exception as e:  # noqa
            k = exc_class(e)
            out = {"out": k, "exc": type(e).__name__}
            if k == "duplicate":
                ids = []
                for d in e.duplicates:
                    found = [i for i, m in enumerate(modules) if m is d]
                    ids.append(found[0] if found else -1)       # -1: not one of the supplied modules
                out["ids"] = ids
            elif k == "missing":
                out["oh"] = str(e.start_overhang)
            elif k == "other":
                out["msg"] = str(e)[:200]
            return out, None
    unused = []
    for w in caught:
        if isinstance(w.message, errors.UnusedModules):
            for r in w.message.remaining:
                unused.append([i for i, m in enumerate(modules) if m is r][0])
    return {"out": "product", "seq": str(prod.seq), "unused": sorted(unused),
            "cls": type(prod).__name__}, prod


def run_assembly(case):
    """case: {"vector": elem, "modules": [elem...]} -> observation (+ typing of each element);
    "prime": class descriptions that are used (typing a record) before, in the same interpreter"""
    for spec in case.get("prime") or []:
        try:
            get_class(spec)(mk_circular("ACGTTGCAAGCTAGGATCCA", "prime")).is_valid()
        except Exception:  # noqa
            pass
    try:
        vector = mk_entity(case["vector"], "vector")
        modules = [mk_entity(m, "mod%d" % i) for i, m in enumerate(case["modules"])]
    except Exception as e:  # noqa
        # the class refuses to wrap the record at all
        return {"out": exc_class(e), "exc": type(e).__name__, "msg": "constructing the entities: " + str(e)[:160]}
    obs, _ = observe_assembly(vector, modules)
    if case.get("typed", True):
        # typing is asked of fresh entities so that it cannot disturb the assembly above
        obs["tv"] = typed_info(mk_entity(case["vector"], "vector"))
        obs["tm"] = [typed_info(mk_entity(m, "mod%d" % i)) for i, m in enumerate(case["modules"])]
    return obs


def preload():
    """import everything a typing query needs (importing is not typing)"""
    from Bio import Restriction  # noqa
    import Bio.SeqFeature, Bio.SeqRecord, Bio.Seq  # noqa
    import moclo.core, moclo.record, moclo.regex, moclo.errors  # noqa
    for k in ("ytk", "cidar", "ecoflex", "moclo", "plant"):
        importlib.import_module("moclo.kits." + k)


def in_fork(fn, arg):
    """run fn(arg) in a forked child (class-level caches of this process are left
    untouched and the child starts from them) and return its JSON-able result"""
    import json
    import os
    r, w = os.pipe()
    pid = os.fork()
    if pid == 0:
        code = 0
        try:
            os.close(r)
            try:
                data = json.dumps({"ok": fn(arg)}, default=str)
            except BaseException as e:  # noqa
                data = json.dumps({"err": "%s: %s" % (type(e).__name__, e)})
            with os.fdopen(w, "w") as fh:
                fh.write(data)
        except BaseException:  # noqa
            code = 1
        os._exit(code)
    os.close(w)
    with os.fdopen(r) as fh:
        data = fh.read()
    os.waitpid(pid, 0)
    res = json.loads(data) if data else {"err": "no output from child"}
    if "err" in res:
        raise RuntimeError(res["err"])
    return res["ok"]
