# coding: utf-8
"""Shared machinery of the checks: scratch copy of the working tree, workers that
run the implementation, Coq builds and case evaluation, evidence, verdicts."""
import atexit
import contextlib
import fcntl
import hashlib
import json
import os
import random
import re
import shutil
import subprocess
import sys
import tempfile
import time
from concurrent.futures import ThreadPoolExecutor

VERIF = os.path.dirname(os.path.dirname(os.path.abspath(__file__)))
REPO = os.environ.get("MOCLO_REPO", "/repo")
COQ = os.path.join(VERIF, "coq")
PY = "/venv/bin/python"
KITS = ["cidar", "ytk", "ecoflex", "moclo", "plant"]
NCPU = min(16, os.cpu_count() or 4)

TRUSTED_BASE = [
    "Coq 8.16.1 kernel and its vm_compute machine (no native_compute, no -type-in-type, no guard/positivity/universe switches)",
    "axioms: none declared; Print Assumptions output of every property theorem is recorded below",
    "harness/gen_tables.py (translator of _lettermap, kit structures, cutters, MRO, archive indices into coq/Gen/*.v)",
    "harness/src2coq.py + gen_src.py (translator of the algorithmic methods of regex.py, record.py, core/_structured.py, modules.py, vectors.py, _assembly.py into coq/Gen/Src.v: its primitive tables, and coq/Py.v, coq/PyObj.v as the model of Python/re/Biopython objects)",
    "harness case writers / observation canonicalisers and coq/Glue.v parsers and comparators",
    "modelled, not verified: CPython re on the flat pattern fragment, Biopython 1.88 Seq/SeqRecord/SeqFeature/Restriction, fs, tarfile, property_cached",
]


# --------------------------------------------------------------------------
# context
# --------------------------------------------------------------------------

class Ctx(object):
    def __init__(self, prop, tier, seed):
        self.prop = prop
        self.tier = tier
        self.seed = seed
        self.rng = random.Random(seed * 1000003 + int(prop[1:]))
        self.t0 = time.time()
        self.scratch = None
        self.root = None
        self.evaluations = 0
        self.nontrivial = set()
        self.samples = []
        self.traces = 0
        self.distribution = {}
        self.violations = []      # oracle violations: dicts with signature/what/input
        self.disagreements = []   # correspondence disagreements
        self.broken = []          # broken proof obligations
        self.notes = []
        self.exhaustive = False
        self.rule = ""
        self.make_errors = {}

    @property
    def quick(self):
        return self.tier == "quick"

    def count(self, key, n=1):
        self.distribution[key] = self.distribution.get(key, 0) + n

    def nontriv(self, obj):
        h = hashlib.sha1(json.dumps(obj, sort_keys=True, default=str).encode()).hexdigest()
        self.nontrivial.add(h)

    def sample(self, obj, limit=4):
        if len(self.samples) < limit:
            self.samples.append(obj)


# --------------------------------------------------------------------------
# scratch copy of the working tree (registries rebuilt as tests/_utils.py does)
# --------------------------------------------------------------------------

def make_scratch(ctx):
    base = os.environ.get("MOCLO_VERIF_TMP") or tempfile.gettempdir()
    root = tempfile.mkdtemp(prefix="moclo-verif-%s-" % ctx.prop, dir=base)
    atexit.register(shutil.rmtree, root, True)
    dst = os.path.join(root, "repo")
    subprocess.check_call(
        ["rsync", "-a", "--exclude", ".git", "--exclude", "docs", "--exclude", "notebook",
         "--exclude", "build", "--exclude", "*.tar.gz", "--exclude", "__pycache__",
         REPO + "/", dst + "/"])
    procs = []
    for kit in KITS:
        d = os.path.join(dst, "moclo-" + kit)
        if os.path.exists(os.path.join(d, "setup.py")) and os.path.isdir(os.path.join(d, "registry")):
            procs.append(subprocess.Popen(
                [PY, "setup.py", "-q", "build_ext", "-i"], cwd=d,
                stdout=subprocess.DEVNULL, stderr=subprocess.DEVNULL,
                env=dict(os.environ, PYTHONHASHSEED="0")))
    for p in procs:
        p.wait()
    ctx.root = root
    ctx.scratch = dst
    return dst


def impl_env(ctx):
    env = dict(os.environ)
    env["MOCLO_SRC"] = ctx.scratch
    env["PYTHONHASHSEED"] = "0"
    env["PYTHONPATH"] = VERIF
    env["MOCLO_VERIF"] = "1"
    env["PYTHONWARNINGS"] = "ignore"
    env["PYTHONDONTWRITEBYTECODE"] = "1"
    return env


def _run_worker(ctx, module, func, cases, extra_env=None):
    env = impl_env(ctx)
    if extra_env:
        env.update(extra_env)
    p = subprocess.run(
        [PY, os.path.join(VERIF, "harness", "worker.py"), module, func],
        input=json.dumps(cases).encode(), stdout=subprocess.PIPE, stderr=subprocess.PIPE,
        env=env, cwd=ctx.root)
    if p.returncode != 0:
        raise RuntimeError("worker %s.%s failed:\n%s" % (module, func, p.stderr.decode()[-4000:]))
    return json.loads(p.stdout.decode())


def run_impl(ctx, module, func, cases, shards=None, fresh_each=False, key=None):
    """Run harness.props.<module>.<func>(case) on the implementation (scratch copy)
    for every case; order is preserved. Each shard is a fresh interpreter. With `key`,
    cases with the same key are run in the same interpreter, in their order (state that
    leaks between related classes or enzymes then has a chance to show)."""
    cases = list(cases)
    if not cases:
        return []
    if fresh_each:
        shards = len(cases)
    shards = max(1, min(shards or NCPU, len(cases)))
    if key is None:
        index = [list(range(i, len(cases), shards)) for i in range(shards)]
    else:
        groups = {}
        for i, c in enumerate(cases):
            groups.setdefault(key(c), []).append(i)
        index = [[] for _ in range(shards)]
        for g in sorted(groups.values(), key=len, reverse=True):
            min(index, key=len).extend(g)
        index = [ix for ix in index if ix]
    chunks = [[cases[i] for i in ix] for ix in index]
    with ThreadPoolExecutor(max_workers=NCPU) as ex:
        outs = list(ex.map(lambda c: _run_worker(ctx, module, func, c), chunks))
    res = [None] * len(cases)
    for ix, out in zip(index, outs):
        for i, o in zip(ix, out):
            res[i] = o
    return res


# --------------------------------------------------------------------------
# Coq
# --------------------------------------------------------------------------

@contextlib.contextmanager
def build_lock(exclusive=True):
    path = os.path.join(VERIF, ".build.lock")
    with open(path, "a+") as fh:
        fcntl.flock(fh, fcntl.LOCK_EX if exclusive else fcntl.LOCK_SH)
        try:
            yield
        finally:
            fcntl.flock(fh, fcntl.LOCK_UN)


def coq_make(targets=None, timeout=1500):
    """(Re)build the Coq development (full .vo). Returns (ok, log)."""
    with build_lock(True):
        if not os.path.exists(os.path.join(COQ, "Makefile")):
            subprocess.check_call(["coq_makefile", "-f", "_CoqProject", "-o", "Makefile"],
                                  cwd=COQ, stdout=subprocess.DEVNULL)
        cmd = ["timeout", str(timeout), "make", "-k", "-j%d" % NCPU] + list(targets or [])
        p = subprocess.run(cmd, cwd=COQ, stdout=subprocess.PIPE, stderr=subprocess.STDOUT)
        return p.returncode == 0, p.stdout.decode(errors="replace")


def make_failures(log):
    """{file.v: first error text} from a `make -k` log; the stale .vo of a file that failed is
    removed so that what depends on it reports the missing library, not an inconsistency"""
    out = {}
    lines = log.split("\n")
    for i, ln in enumerate(lines):
        m = re.match(r'File "\./([^"]+\.v)", line (\d+)', ln)
        if not m:
            continue
        txt = []
        for nx in lines[i + 1:i + 40]:
            if nx.startswith(("make", "File ", "COQC", "COQDEP")):
                break
            txt.append(nx)
        body = " ".join(" ".join(txt).split())
        if body.startswith("Error") and m.group(1) not in out:
            out[m.group(1)] = "line %s: %s" % (m.group(2), body[:900])
    with build_lock(True):
        for f in out:
            base = os.path.join(COQ, f[:-2])
            for ext in (".vo", ".vok", ".vos", ".glob"):
                with contextlib.suppress(OSError):
                    os.remove(base + ext)
    return out


def coqc(path, timeout=600):
    p = subprocess.run(["timeout", str(timeout), "coqc", "-Q", ".", "MV", path], cwd=COQ,
                       stdout=subprocess.PIPE, stderr=subprocess.STDOUT)
    return p.returncode, p.stdout.decode(errors="replace")


_THM_RX = re.compile(r"^\s*(Theorem|Example)\s+([A-Za-z0-9_']+)", re.M)
_FORBIDDEN_RX = re.compile(
    r"\b(Admitted|admit|Axiom|Axioms|Parameter|Parameters|Conjecture|Hypothesis|Variable|Abort)\b"
    r"|Unset\s+Guard|bypass_check|Admit\s+Obligations|-type-in-type|impredicative-set")


def forbidden_scan():
    """grep the whole development for escape hatches; returns offending lines."""
    bad = []
    for dirpath, _, files in os.walk(COQ):
        if os.path.basename(dirpath) == "cases":
            continue
        for f in files:
            if not f.endswith(".v"):
                continue
            p = os.path.join(dirpath, f)
            txt = open(p).read()
            txt = re.sub(r"\(\*.*?\*\)", "", txt, flags=re.S)
            for i, line in enumerate(txt.split("\n")):
                m = _FORBIDDEN_RX.search(line)
                if m and not re.search(r"Context|Section", line):
                    bad.append("%s:%d: %s" % (os.path.relpath(p, COQ), i + 1, line.strip()))
    return bad


def check_props(ctx, extra_files=()):
    """Compile Props/<prop>.v (and extra reflective obligation files) and account
    for every Theorem in them: discharged iff the file compiles and the theorem's
    Print Assumptions output is 'Closed under the global context'."""
    files = ["Props/%s.v" % ctx.prop] + list(extra_files)
    obligations, discharged, assumptions = 0, 0, {}
    names_all = []
    for rel in files:
        src = open(os.path.join(COQ, rel)).read()
        names = [m.group(2) for m in _THM_RX.finditer(src) if m.group(1) == "Theorem"]
        names_all += names
        obligations += len(names)
        with build_lock(False):
            rc, out = coqc(rel)
        if rc != 0:
            why = out[-3000:]
            me = getattr(ctx, "make_errors", None)
            if me:
                why += "\nfiles of the development that no longer compile: " + "; ".join(
                    "%s (%s)" % (f, e) for f, e in me.items())[:3000]
            ctx.broken.append({"file": rel, "theorems": names, "log": why})
            continue
        # Print Assumptions outputs appear in order
        blocks = re.split(r"(?m)^(?=Closed under the global context|Axioms:)", out)
        blocks = [b for b in blocks if b.startswith("Closed") or b.startswith("Axioms:")]
        printed = re.findall(r"Print Assumptions\s+([A-Za-z0-9_']+)\s*\.", src)
        for nm, b in zip(printed, blocks):
            assumptions[nm] = "closed" if b.startswith("Closed") else b.strip()
        for nm in names:
            a = assumptions.get(nm)
            if a == "closed":
                discharged += 1
            else:
                ctx.broken.append({"file": rel, "theorems": [nm],
                                   "log": "assumptions not closed or not printed: %r" % (a,)})
    bad = forbidden_scan()
    if bad:
        ctx.broken.append({"file": "*", "theorems": [], "log": "forbidden constructs: " + "; ".join(bad[:10])})
    return obligations, discharged, assumptions, names_all


_SRC_MODULE = {}


def src_module(name="SrcGlue"):
    """the module through which the cases run the regenerated code: SrcGlue / SrcRun when it builds
    on this tree, else the stub that falls back on the hand-written model (the broken
    obligations are reported by check_props)"""
    if name not in _SRC_MODULE:
        cdir = os.path.join(COQ, "cases")
        os.makedirs(cdir, exist_ok=True)
        fname = "probe_%s_%d.v" % (name, os.getpid())
        with open(os.path.join(cdir, fname), "w") as fh:
            fh.write("From MV Require Import %s.\n" % name)
        with build_lock(False):
            rc, _ = coqc("cases/" + fname)
        for ext in (".v", ".vo", ".vok", ".vos", ".glob"):
            with contextlib.suppress(OSError):
                os.remove(os.path.join(cdir, fname[:-2] + ext))
        with contextlib.suppress(OSError):
            os.remove(os.path.join(cdir, "." + fname[:-2] + ".aux"))
        _SRC_MODULE[name] = name if rc == 0 else name + "Stub"
    return _SRC_MODULE[name]


def coq_eval_cases(ctx, name, imports, case_terms, check_fn, per_file=400, extra_defs=""):
    """Evaluate `check_fn case` (a Coq bool function) on every case term inside Coq
    (vm_compute) and return the indices for which it is false."""
    cdir = os.path.join(COQ, "cases")
    os.makedirs(cdir, exist_ok=True)
    for mod in ("SrcGlue", "SrcRun", "SrcStructRun"):
        if re.search(r" %s\b" % mod, imports) and src_module(mod) != mod:
            imports = re.sub(r" %s\b" % mod, " %sStub" % mod, imports)
            stubbed = True
        else:
            stubbed = False
        if not stubbed:
            continue
        note = "the regenerated code could not be run on the cases (source layer does not build): model-only correspondence"
        if note not in ctx.notes:
            ctx.notes.append(note)
    files = []
    for fno, lo in enumerate(range(0, len(case_terms), per_file)):
        chunk = case_terms[lo:lo + per_file]
        fname = "cases_%s_%s_%d_%d.v" % (ctx.prop, name, os.getpid(), fno)
        body = [imports, extra_defs,
                "Definition cases := [\n" + ";\n".join(chunk) + "\n].",
                "Definition bad := bad_indices (%s) cases." % check_fn,
                "Definition res := Eval vm_compute in bad.",
                'Goal True. idtac "BADBEGIN". let r := eval cbv delta [res] in res in idtac r. idtac "BADEND". exact I. Qed.']
        with open(os.path.join(cdir, fname), "w") as fh:
            fh.write("\n".join(body) + "\n")
        files.append((fname, lo))

    def one(item):
        fname, lo = item
        with build_lock(False):
            rc, out = coqc("cases/" + fname, timeout=1200)
        base = os.path.join(cdir, fname[:-2])
        for ext in (".vo", ".vok", ".vos", ".glob", ".v"):
            if rc == 0 or ext != ".v":
                with contextlib.suppress(OSError):
                    os.remove(base + ext)
        with contextlib.suppress(OSError):
            os.remove(os.path.join(cdir, "." + fname[:-2] + ".aux"))
        if rc != 0:
            raise RuntimeError("coqc failed on %s:\n%s" % (fname, out[-3000:]))
        m = re.search(r"BADBEGIN\s*(.*?)\s*BADEND", out, re.S)
        if not m:
            raise RuntimeError("no result in coqc output for %s:\n%s" % (fname, out[-2000:]))
        txt = m.group(1)
        return [lo + int(x) for x in re.findall(r"\d+", txt)]

    bad = []

    def guarded(item):
        try:
            return one(item), None
        except RuntimeError as e:
            return [], str(e)
    failed = 0
    with ThreadPoolExecutor(max_workers=NCPU) as ex:
        for r, err in ex.map(guarded, files):
            bad += r
            if err:
                failed += 1
                if failed == 1:
                    # the model could not be evaluated on these cases: reported as a broken tie; the
                    # direct oracles of the property still run
                    ctx.broken.append({"file": "cases:" + name, "theorems": [], "log": err[-2500:]})
    ctx.traces += len(case_terms) if not failed else 0
    return sorted(bad)


def coq_show(ctx, name, imports, term):
    """Print the model's full answer for a term (used for replays)."""
    cdir = os.path.join(COQ, "cases")
    os.makedirs(cdir, exist_ok=True)
    fname = "show_%s_%s_%d.v" % (ctx.prop, name, os.getpid())
    with open(os.path.join(cdir, fname), "w") as fh:
        fh.write(imports + "\nEval vm_compute in (%s).\n" % term)
    with build_lock(False):
        rc, out = coqc("cases/" + fname)
    base = os.path.join(cdir, fname[:-2])
    for ext in (".vo", ".vok", ".vos", ".glob", ".v"):
        with contextlib.suppress(OSError):
            os.remove(base + ext)
    with contextlib.suppress(OSError):
        os.remove(os.path.join(cdir, "." + fname[:-2] + ".aux"))
    return out.strip()[-4000:]


# Coq term helpers --------------------------------------------------------

def cz(n):
    return "(%d)%%Z" % n

def cnat(n):
    return "%d%%nat" % n

def cstr(s):
    return '"%s"%%string' % s.replace('"', '""')

def clist(items):
    return "[" + "; ".join(items) + "]"

def cbool(b):
    return "true" if b else "false"

def copt(x):
    return "None" if x is None else "(Some %s)" % x


# --------------------------------------------------------------------------
# known findings, replays, evidence, verdict
# --------------------------------------------------------------------------

def load_known():
    p = os.path.join(VERIF, "known_findings.json")
    if not os.path.exists(p):
        return {"known": [], "fixed": []}
    return json.load(open(p))


def write_replay(ctx, obj):
    d = os.path.join(VERIF, "replays", ctx.prop)
    os.makedirs(d, exist_ok=True)
    n = 0
    while os.path.exists(os.path.join(d, "%d.json" % n)):
        n += 1
    path = os.path.join(d, "%d.json" % n)
    obj = dict(obj, property=ctx.prop, seed=ctx.seed, tier=ctx.tier)
    with open(path, "w") as fh:
        json.dump(obj, fh, indent=1, default=str)
    return path


def finish(ctx, obligations, discharged, assumptions, theorem_names, level_note=""):
    """Write evidence, print verdict lines, return exit code."""
    known = load_known()
    known_sigs = {k["signature"]: k for k in known.get("known", []) if k.get("property") == ctx.prop}
    exit_code = 0
    lines = []
    seen_known = set()
    new_violations = []
    for v in ctx.violations:
        sig = v.get("signature")
        if sig in known_sigs:
            if sig not in seen_known:
                seen_known.add(sig)
                lines.append("KNOWN-FINDING: property=%s %s" % (ctx.prop, known_sigs[sig]["what"]))
        else:
            new_violations.append(v)
    reported = set()
    for v in new_violations:
        sig = v.get("signature")
        if sig in reported:
            continue
        reported.add(sig)
        path = write_replay(ctx, {"kind": "oracle", "violation": v})
        lines.append("VIOLATION property=%s replay=%s" % (ctx.prop, path))
        exit_code = 1
    if not new_violations and (ctx.broken or ctx.disagreements):
        # a proof obligation or the correspondence broke, and the direct oracle found
        # no failing input (after re-examining the disagreeing inputs themselves)
        path = write_replay(ctx, {
            "kind": "unverified",
            "broken_obligations": ctx.broken,
            "correspondence_disagreements": ctx.disagreements[:5],
            "note": "the property is no longer shown to hold: the theorem(s) or the "
                    "model/implementation correspondence named here no longer check",
        })
        lines.append("VIOLATION property=%s replay=%s no-failing-input-found" % (ctx.prop, path))
        exit_code = 1
    wall = time.time() - ctx.t0
    ev = {
        "property_id": ctx.prop,
        "tier": ctx.tier,
        "seed": ctx.seed,
        "level": "proof",
        "coverage": {
            "obligations": obligations,
            "discharged": discharged,
            "checker_cmd": "cd /verif/coq && coqc -Q . MV Props/%s.v  (after make; Print Assumptions under every theorem)" % ctx.prop,
            "trusted_base": TRUSTED_BASE,
            "theorems": theorem_names,
            "assumptions": assumptions,
            "evaluations": ctx.evaluations,
            "distinct_nontrivial": len(ctx.nontrivial),
            "rule": ctx.rule,
            "samples": ctx.samples[:6] or [{"obligations": theorem_names[:5]}],
            "traces_validated_against_impl": ctx.traces,
            "input_distribution": ctx.distribution,
            "exhaustive": bool(ctx.exhaustive),
            "correspondence_disagreements": len(ctx.disagreements),
            "broken_obligations": [b["file"] + ":" + ",".join(b["theorems"]) for b in ctx.broken],
            "known_findings_seen": sorted(seen_known),
            "notes": ctx.notes,
        },
        "assumptions": [
            "the model in coq/*.v mirrors the implementation; this is checked on this run by the "
            "correspondence cases counted in traces_validated_against_impl and by regenerated tables",
            level_note,
        ],
        "wall_s": round(wall, 2),
        "violations": len(reported) + (1 if (not new_violations and (ctx.broken or ctx.disagreements)) else 0),
    }
    # evidence/ describes runs against /repo itself; a run against another tree (MOCLO_REPO: a
    # seeded change under evaluation) leaves it alone and writes beside the replays
    evdir = os.path.join(VERIF, "evidence") if os.path.realpath(REPO) == "/repo" else os.path.join(VERIF, "replays", "evidence-other-tree")
    os.makedirs(evdir, exist_ok=True)
    with open(os.path.join(evdir, ctx.prop + ".json"), "w") as fh:
        json.dump(ev, fh, indent=1, default=str)
    for ln in lines:
        print(ln)
    print("%s tier=%s seed=%d obligations=%d/%d evaluations=%d nontrivial=%d traces=%d wall=%.1fs exit=%d"
          % (ctx.prop, ctx.tier, ctx.seed, discharged, obligations, ctx.evaluations,
             len(ctx.nontrivial), ctx.traces, wall, exit_code))
    sys.stdout.flush()
    return exit_code
