# coding: utf-8
"""Driver-side generators of well-formed MoClo plasmids for any enzyme of the
supported family, and Coq printers for class specifications."""
from . import pattern

COMP = {"A": "T", "C": "G", "G": "C", "T": "A", "R": "Y", "Y": "R", "S": "S", "W": "W", "K": "M", "M": "K",
        "B": "V", "V": "B", "D": "H", "H": "D", "N": "N"}
COMP.update({k.lower(): v.lower() for k, v in list(COMP.items())})


def rc(s):
    return "".join(COMP[c] for c in reversed(s))


def rand_dna(rng, n, alphabet="ACGT"):
    return "".join(rng.choice(alphabet) for _ in range(n))


def count_circ(word, s):
    """circular, case-blind occurrences of word in s"""
    n = len(s)
    if n == 0 or len(word) > n:
        return 0
    d = (s + s).upper()
    w = word.upper()
    return sum(1 for i in range(n) if d.startswith(w, i))


def two_sites(enz, s):
    """exactly the two recognition sites of the formal definition"""
    return count_circ(enz["site"], s) == 1 and count_circ(rc(enz["site"]), s) == 1


def module_seq(enz, up, down, t, backbone, x=None, y=None, rng=None):
    """site . x . up . t . down . y . rc(site) . backbone"""
    x = x if x is not None else rand_dna(rng, enz["off"])
    y = y if y is not None else rand_dna(rng, enz["off"])
    return enz["site"] + x + up + t + down + y + rc(enz["site"]) + backbone


def vector_seq(enz, up, down, body, placeholder, x=None, y=None, rng=None):
    """down . y . rc(site) . placeholder . site . x . up . body
    (overhang_end = down = group 1, overhang_start = up = group 3, target = up . body)"""
    x = x if x is not None else rand_dna(rng, enz["off"])
    y = y if y is not None else rand_dna(rng, enz["off"])
    return down + y + rc(enz["site"]) + placeholder + enz["site"] + x + up + body


def rotate(s, k):
    n = len(s)
    k %= n
    return s[n - k:] + s[:n - k]


def gen_module(rng, enz, up, down, tlen, blen, tries=60):
    """a module plasmid with exactly two sites; None if the geometry makes that impossible"""
    for _ in range(tries):
        t = rand_dna(rng, tlen)
        b = rand_dna(rng, blen)
        s = module_seq(enz, up, down, t, b, rng=rng)
        if two_sites(enz, s):
            f = len(enz["site"]) + enz["off"] + enz["ovh"]
            return {"seq": s, "up": up, "down": down, "t": t, "frag": up + t,
                    "flanks": [(0, f), (f + tlen, f + tlen + f)]}
    return None


def gen_vector(rng, enz, up, down, blen, plen, tries=60):
    for _ in range(tries):
        b = rand_dna(rng, blen)
        p = rand_dna(rng, plen)
        s = vector_seq(enz, up, down, b, p, rng=rng)
        if two_sites(enz, s):
            f = len(enz["site"]) + enz["off"] + enz["ovh"]
            return {"seq": s, "up": up, "down": down, "body": b, "frag": up + b,
                    "flanks": [(0, f), (f + plen, f + plen + f)]}
    return None


def new_origin(s, j):
    """the same circle read from position j"""
    j %= len(s)
    return s[j:] + s[:j]


def pick_origin(rng, elem, p_flank=0.75):
    """an origin placement: mostly inside (or at the edge of) the flanking structure"""
    n = len(elem["seq"])
    if rng.random() < p_flank:
        a, b = rng.choice(elem["flanks"])
        return rng.randrange(a, b + 2) % n
    return rng.randrange(0, n)


def reorigin(rng, elem, p_flank=0.75):
    return new_origin(elem["seq"], pick_origin(rng, elem, p_flank))


def distinct_overhangs(rng, enz, count, tries=200):
    """`count` overhangs of the enzyme's length, pairwise distinct, none the reverse
    complement of another, none palindromic, none containing a site"""
    out = []
    k = enz["ovh"]
    for _ in range(tries):
        if len(out) == count:
            return out
        o = rand_dna(rng, k)
        if o in out or rc(o) in out or o == rc(o):
            continue
        out.append(o)
    return out if len(out) == count else None


def gen_chain(rng, enz, q, tmin=2, tmax=8, bmax=6, vup_mirrors_start=False, palindrome=False):
    """a vector and q modules chaining vdown -> ... -> vup; ground truth included.
    vup_mirrors_start: the vector's upstream overhang (the last junction) is the reverse complement of one
    module's upstream overhang (the clash rule of assemble() is about module starts only)"""
    if vup_mirrors_start:
        ohs = distinct_overhangs(rng, enz, q)
        if ohs is None:
            return None
        ohs = ohs + [rc(rng.choice(ohs))]
    else:
        ohs = distinct_overhangs(rng, enz, q + 1)
    if ohs is None:
        return None
    if palindrome and enz["ovh"] % 2 == 0:
        # one junction (a fusion site between two modules, or one of the vector's) is its own reverse complement
        for _ in range(20):
            h = rand_dna(rng, enz["ovh"] // 2)
            p = h + rc(h)
            if p not in ohs and enz["site"] not in p and rc(enz["site"]) not in p:
                ohs = list(ohs)
                ohs[rng.randrange(0, len(ohs))] = p
                break
    vup, vdown = ohs[q], ohs[0]
    mods = []
    for j in range(q):
        m = gen_module(rng, enz, ohs[j], ohs[j + 1], rng.randrange(tmin, tmax + 1), rng.randrange(0, bmax + 1))
        if m is None:
            return None
        mods.append(m)
    v = gen_vector(rng, enz, vup, vdown, rng.randrange(2, bmax + 3), rng.randrange(0, bmax + 1))
    if v is None:
        return None
    expected = "".join(m["frag"] for m in mods) + v["frag"]
    return {"vector": v, "modules": mods, "expected": expected}


# ------------------------------------------------------------ class specs -> Coq

def generic_spec(role, enz):
    return {"kind": "generic", "role": role, "enzyme": enz["name"]}


def c_role(role):
    return "RModule" if role == "module" else "RVector"


def siblings(ctx, enz):
    """generic classes over the other enzymes of the family that recognise the same site with another cut
    geometry (neoschizomers): classes a kit may define next to this enzyme's"""
    out = []
    seen = set()
    for e in ctx.tables["enzymes"]:
        if e["site"] == enz["site"] and (e["off"], e["ovh"]) != (enz["off"], enz["ovh"]) and (e["off"], e["ovh"]) not in seen:
            seen.add((e["off"], e["ovh"]))
            out.append(generic_spec("module", e))
            out.append(generic_spec("vector", e))
    return out


def resolve_spec(spec):
    """a run-time subclass of a generic / part / custom class, as the class description it amounts to"""
    if spec["kind"] != "sub":
        return spec
    base = dict(resolve_spec(spec["parent"]))
    if base["kind"] == "kit":
        raise ValueError("subclass of a kit class has no direct description")
    if spec.get("cutter"):
        base["enzyme"] = spec["cutter"]
    if spec.get("sig"):
        if base["kind"] not in ("generic", "part"):
            raise ValueError("signature on a custom structure")
        base["kind"] = "part"
        base["sig"] = list(spec["sig"])
    return base


def sub_cutter_spec(role, parent_enz, enz):
    """a class derived from the generic class over parent_enz that only overrides the cutter"""
    return {"kind": "sub", "name": "Sub_%s_%s_of_%s" % (role, enz["name"], parent_enz["name"]),
            "parent": generic_spec(role, parent_enz), "cutter": enz["name"]}


def c_cls(ctx, spec):
    spec = resolve_spec(spec)
    kind = spec["kind"]
    if kind == "kit":
        return '(kit_cls "%s")' % spec["name"]
    enz = [e for e in ctx.tables["enzymes"] if e["name"] == spec["enzyme"]]
    if not enz:
        raise pattern.Unsupported("enzyme %s outside the family" % spec["enzyme"])
    e = pattern.c_enzyme(enz[0])
    if kind == "generic":
        return "(generic_cls %s %s)" % (c_role(spec["role"]), e)
    if kind == "part":
        up = pattern.tokenize(spec["sig"][0], ctx.lettermap)
        down = pattern.tokenize(spec["sig"][1], ctx.lettermap)
        return "(part_cls %s %s %s %s)" % (c_role(spec["role"]), e, pattern.c_pattern(up), pattern.c_pattern(down))
    if kind == "custom":
        return "(C %s %s %s)" % (c_role(spec["role"]), e, pattern.c_pattern(pattern.tokenize(spec["structure"], ctx.lettermap)))
    raise ValueError(kind)


def c_obs(obs):
    """observation of an assembly -> Glue.asm_obs"""
    k = obs["out"]
    if k == "product":
        return '(OProduct "%s"%%string [%s])' % (obs["seq"], "; ".join("%d" % i for i in obs["unused"]))
    if k == "invalid":
        return "OInvalid"
    if k == "duplicate":
        a, b = [(i if i >= 0 else 9999) for i in (list(obs["ids"]) + [-1, -1])[:2]]
        return "(ODuplicate %d %d)" % (a, b)
    if k == "missing":
        return '(OMissing "%s"%%string)' % obs["oh"]
    return "OOther"


# ------------------------------------------------------------ pattern instances

NUC = {"A": "A", "C": "C", "G": "G", "T": "T", "R": "AG", "Y": "CT", "S": "CG", "W": "AT", "K": "GT", "M": "AC",
       "B": "CGT", "D": "AGT", "H": "ACT", "V": "ACG", "N": "ACGT"}


def class_letter(rng, codes):
    """a target letter accepted by a class given as a string of IUPAC codes"""
    real = [c for c in codes if c in "ACGT"]
    return rng.choice(real) if real else rng.choice(codes)


def instantiate(rng, items, star=(0, 4)):
    """a word matching a flat pattern (items of harness.pattern.tokenize)"""
    out = []
    for it in items:
        if it[0] == "atom":
            out.append(class_letter(rng, it[1]))
        elif it[0] in ("starg", "starl"):
            out.append("".join(class_letter(rng, it[1]) for _ in range(rng.randrange(star[0], star[1] + 1))))
    return "".join(out)


def kit_spec(c):
    return {"kind": "kit", "kit": c["kit"], "name": c["name"]}


def instantiate_groups(rng, items, fixed=None, star=(0, 4), allowed=None):
    """like instantiate, but the letters of capture group g are taken from fixed[g] when given
    (and must fit the atoms); returns (word, {group: text}); `allowed`, a list, receives the
    codes accepted at each position of the word"""
    fixed = fixed or {}
    out = []
    groups = {}
    stack = []
    gno = 0
    pos = {}
    for it in items:
        if it[0] == "open":
            gno += 1
            stack.append(gno)
            groups[gno] = []
            pos[gno] = 0
            continue
        if it[0] == "close":
            stack.pop()
            continue
        if it[0] == "atom":
            ch = None
            for g in stack:
                if g in fixed:
                    ch = fixed[g][pos[g]]
                    pos[g] += 1
            if ch is None:
                ch = class_letter(rng, it[1])
            elif ch.upper() not in it[1] and not (ch.upper() in "ACGT" and "N" in it[1] and ch.upper() in it[1]):
                if ch.upper() not in it[1]:
                    raise ValueError("fixed letter %s does not fit %s" % (ch, it[1]))
            word = ch
        else:
            word = "".join(class_letter(rng, it[1]) for _ in range(rng.randrange(star[0], star[1] + 1)))
        out.append(word)
        if allowed is not None:
            allowed.extend([it[1]] * len(word))
        for g in stack:
            groups[g].append(word)
    return "".join(out), {g: "".join(v) for g, v in groups.items()}


def mirror_next_overhangs(word, allowed, nenz):
    """rewrite the letters that will be the next level's downstream overhang so that it is the reverse
    complement of the next level's upstream overhang (a legitimate, if unusual, choice of fusion sites);
    None when the letters are not free or the sites are not where expected"""
    site, rsite = nenz["site"], rc(nenz["site"])
    u = word.upper()
    if u.count(site) != 1 or u.count(rsite) != 1:
        return None
    a = u.index(site) + len(site) + nenz["off"]                 # next-level upstream overhang [a, a+ovh)
    b = u.index(rsite) - nenz["off"] - nenz["ovh"]              # next-level downstream overhang [b, b+ovh)
    k = nenz["ovh"]
    if a < 0 or b < 0 or a + k > len(word) or b + k > len(word) or not (a + k <= b or b + k <= a):
        return None
    new = rc(word[a:a + k])
    if new.upper() == word[a:a + k].upper():
        return None
    for i, ch in enumerate(new):
        if ch.upper() not in allowed[b + i]:
            return None
    return word[:b] + new + word[b + k:]
