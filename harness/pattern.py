# coding: utf-8
"""Tokenizer for the flat pattern language (fail-closed) and Coq printers.

items: ("atom", codes) ("starg", codes) ("starl", codes) ("open",) ("close",)
codes: string over the 15 IUPAC code letters (upper case), a set written in a fixed order."""
import ast
import re

CODES = "ACGTRYSWKMBDHVN"


class Unsupported(Exception):
    pass


def read_lettermap(regex_py):
    """Read DNARegex._lettermap from the source text by ast (no import)."""
    tree = ast.parse(open(regex_py).read())
    for node in ast.walk(tree):
        if isinstance(node, ast.ClassDef) and node.name == "DNARegex":
            for st in node.body:
                tgt = None
                if isinstance(st, ast.Assign) and len(st.targets) == 1:
                    tgt = st.targets[0]
                elif isinstance(st, ast.AnnAssign):
                    tgt = st.target
                if isinstance(tgt, ast.Name) and tgt.id == "_lettermap":
                    d = ast.literal_eval(st.value)
                    return {str(k): str(v) for k, v in d.items()}
    raise Unsupported("DNARegex._lettermap not found as a dict literal")


def read_flags(regex_py):
    """The transcription prefix ('(?i)') as written in _transcribe."""
    src = open(regex_py).read()
    m = re.search(r'target\s*=\s*\[\s*"([^"]*)"\s*\]', src)
    return m.group(1) if m else None


def _class_codes(text):
    """'[ACGTN]' -> 'ACGTN' (set of target letters, case-blind under (?i))."""
    if not (text.startswith("[") and text.endswith("]")):
        raise Unsupported("not a simple class: %r" % text)
    body = text[1:-1]
    if not body or body.startswith("^") or "-" in body or "\\" in body:
        raise Unsupported("class syntax outside the fragment: %r" % text)
    out = []
    for ch in body.upper():
        if ch not in CODES:
            raise Unsupported("class letter outside IUPAC: %r" % ch)
        if ch not in out:
            out.append(ch)
    return "".join(sorted(out, key=CODES.index))


def letter_codes(ch, lettermap):
    """what one pattern character matches after _transcribe, as a code set"""
    if ch in lettermap:
        return _class_codes(lettermap[ch])
    if ch.upper() in CODES:
        return ch.upper()          # literal letter, case-blind
    raise Unsupported("pattern character outside the fragment: %r" % ch)


def tokenize(text, lettermap):
    items = []
    i, n = 0, len(text)
    depth = 0
    while i < n:
        ch = text[i]
        if ch == "(":
            if text[i + 1:i + 2] == "?":
                raise Unsupported("group extension (?...)")
            items.append(("open",))
            depth += 1
            i += 1
            continue
        if ch == ")":
            depth -= 1
            if depth < 0:
                raise Unsupported("unbalanced parenthesis")
            items.append(("close",))
            i += 1
            continue
        if ch == "[":
            j = text.find("]", i)
            if j < 0:
                raise Unsupported("unterminated class")
            # inside an explicit class _transcribe still maps letters; flatten
            inner = "".join(letter_codes(c, lettermap) for c in text[i + 1:j])
            codes = "".join(sorted(set(inner), key=CODES.index))
            i = j + 1
        else:
            codes = letter_codes(ch, lettermap)
            i += 1
        # quantifier
        if text[i:i + 2] == "*?":
            items.append(("starl", codes)); i += 2
        elif text[i:i + 1] == "*":
            items.append(("starg", codes)); i += 1
        elif text[i:i + 2] == "+?":
            items += [("atom", codes), ("starl", codes)]; i += 2
        elif text[i:i + 1] == "+":
            items += [("atom", codes), ("starg", codes)]; i += 1
        elif text[i:i + 1] == "{":
            m = re.match(r"\{(\d+)\}", text[i:])
            if not m:
                raise Unsupported("quantifier outside the fragment")
            items += [("atom", codes)] * int(m.group(1)); i += m.end()
        elif text[i:i + 1] == "?":
            raise Unsupported("optional item")
        else:
            items.append(("atom", codes))
        if text[i:i + 1] in ("*", "+", "?"):
            raise Unsupported("stacked quantifier")
    if depth != 0:
        raise Unsupported("unbalanced parenthesis")
    return items


def c_cset(codes):
    return "[" + "; ".join("c" + c for c in codes) + "]"


def c_item(it):
    k = it[0]
    if k == "atom":
        return "Atom " + c_cset(it[1])
    if k == "starg":
        return "StarG " + c_cset(it[1])
    if k == "starl":
        return "StarL " + c_cset(it[1])
    return "Open" if k == "open" else "Close"


def c_pattern(items):
    return "[" + "; ".join(c_item(i) for i in items) + "]"


def c_codes(word):
    return "[" + "; ".join("c" + c for c in word.upper()) + "]"


def c_enzyme(e):
    return "(E %s %d %d)" % (c_codes(e["site"]), e["off"], e["ovh"])
