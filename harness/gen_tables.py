# coding: utf-8
"""Regenerates the data part of the model (coq/Gen/*.v) from the working tree."""


def generate(ctx):
    return []
