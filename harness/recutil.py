# coding: utf-8
"""JSON <-> CircularRecord conversion (worker side) and JSON -> Coq terms (driver side).

JSON record: {"seq": str, "id": str, "name": str, "desc": str,
              "features": [{"type": str, "q": int|None, "parts": [[a, b, s], ...], "cit": [..]?}],
              "tracks": [[...], ...], "ann": {...}, "refs": [ids]?}
strand s: 1, -1, 0 (None)."""

ALPHABET = "ACGTRYSWKMBDHVN"
ALPHA30 = ALPHABET + ALPHABET.lower()

# ---------------------------------------------------------------- worker side


def mk_location(parts):
    from Bio.SeqFeature import FeatureLocation, CompoundLocation
    locs = [FeatureLocation(a, b, strand=(s if s else None)) for a, b, s in parts]
    return locs[0] if len(locs) == 1 else CompoundLocation(locs)


def mk_feature(f):
    from Bio.SeqFeature import SeqFeature
    quals = {}
    if f.get("q") is not None:
        quals["label"] = ["L%d" % f["q"]]
    if f.get("cit"):
        quals["citation"] = list(f["cit"])
    if f.get("plasmid") is not None:
        quals["plasmid"] = f["plasmid"]
    return SeqFeature(mk_location(f["parts"]), type=f["type"], qualifiers=quals)


def mk_seqrecord(j, cls=None):
    from Bio.Seq import Seq
    from Bio.SeqRecord import SeqRecord
    cls = cls or SeqRecord
    ann = dict(j.get("ann") or {})
    if j.get("refs") is not None:
        ann["references"] = [mk_reference(r) for r in j["refs"]]
    rec = cls(
        Seq(j["seq"]), id=j.get("id", "rec"), name=j.get("name", "rec"),
        description=j.get("desc", "d"), dbxrefs=list(j.get("dbxrefs", [])),
        features=[mk_feature(f) for f in j.get("features", [])],
        annotations=ann or None,      # no annotations mapping at all when there is nothing to put in it
        letter_annotations={"t%d" % i: list(t) for i, t in enumerate(j.get("tracks", []))} or None,
    )
    return rec


def mk_record(j):
    from moclo.record import CircularRecord
    return mk_seqrecord(j, CircularRecord)


def mk_reference(rid):
    """reference number `rid`: odd ones are published (their own title and PubMed id), even ones are the classic
    unpublished entry (title 'Direct Submission', no identifier); references 4 apart share their authors, so two
    direct submissions of one group differ in the journal line (the submission date) and the location only"""
    from Bio.SeqFeature import Reference
    r = Reference()
    r.authors = "author %s" % (int(rid) % 4)
    r.journal = "journal %s" % rid
    if int(rid) % 2:
        r.title = "title %s" % rid
        r.pubmed_id = str(1000 + int(rid))
    else:
        r.title = "Direct Submission"
    if int(rid) % 3 != 1:
        # as parsed from GenBank ("REFERENCE 1 (bases 1 to N)"): a span in the coordinates of the source record
        from Bio.SeqFeature import FeatureLocation
        r.location = [FeatureLocation(0, 10 + int(rid))]
    return r


def ref_id(r):
    try:
        return int(r.journal.split()[1])
    except Exception:
        return repr(r)


def strand_num(s):
    return 0 if s is None else int(s)


def dump_feature(f):
    loc = f.location
    if loc is None:
        return {"type": f.type, "q": None, "parts": None}
    parts = [[int(p.start), int(p.end), strand_num(p.strand)] for p in loc.parts]
    q = None
    lab = f.qualifiers.get("label")
    if lab and isinstance(lab[0], str) and lab[0].startswith("L") and lab[0][1:].isdigit():
        q = int(lab[0][1:])
    out = {"type": f.type, "q": q, "parts": parts}
    if "citation" in f.qualifiers:
        out["cit"] = [c if isinstance(c, str) else {"ref": ref_id(c)} for c in f.qualifiers["citation"]]
    return out


def dump_record(rec):
    la = rec.letter_annotations
    return {
        "seq": str(rec.seq),
        "id": rec.id, "name": rec.name, "desc": rec.description,
        "features": [dump_feature(f) for f in rec.features],
        "tracks": [list(la[k]) for k in sorted(la.keys())],
        "cls": type(rec).__name__,
    }


def deep_snapshot(rec):
    """Everything C07 speaks about, as plain data."""
    ann = {}
    for k, v in rec.annotations.items():
        if k == "references":
            ann[k] = [ref_id(r) for r in v]
        else:
            ann[k] = repr(v)
    feats = []
    for f in rec.features:
        quals = {}
        for k, v in f.qualifiers.items():
            quals[k] = [x if isinstance(x, str) else {"ref": ref_id(x)} for x in v] if isinstance(v, list) else repr(v)
        feats.append({"type": f.type, "id": f.id, "loc": repr(f.location), "quals": quals})
    return {
        "seq": str(rec.seq), "id": rec.id, "name": rec.name, "desc": rec.description,
        "dbxrefs": list(rec.dbxrefs), "features": feats, "ann": ann,
        "tracks": {k: list(v) for k, v in rec.letter_annotations.items()},
    }


# ---------------------------------------------------------------- driver side

_TYPES = {}


def type_id(t):
    if t == "source":
        return 0
    if t not in _TYPES:
        _TYPES[t] = len(_TYPES) + 1
    return _TYPES[t]


def c_strand(s):
    return {1: "Plus", -1: "Minus", 0: "NoStrand"}[s]


def c_part(p):
    return "(P (%d) (%d) %s)" % (p[0], p[1], c_strand(p[2]))


def c_feature(f):
    q = f.get("q")
    return "(F %s %d %d [%s])" % (
        "true" if f["type"] == "source" else "false",
        type_id(f["type"]), 0 if q is None else q + 1,
        "; ".join(c_part(p) for p in f["parts"]))


def c_record(j):
    return '(R (dna "%s") [%s] [%s])' % (
        j["seq"],
        "; ".join(c_feature(f) for f in j.get("features", [])),
        "; ".join("[" + "; ".join("%d" % x for x in t) + "]" for t in j.get("tracks", [])))


def check_alphabet(s):
    return all(c in ALPHA30 for c in s)
