# coding: utf-8
"""Running vector.assemble as regenerated from the source (coq/Gen/Src.v, heap style) on the inputs
of a correspondence case (coq/SrcRun.v): the terms of the inputs as the implementation saw them
and of everything its product shows."""
import re

from harness import gens, recutil

IMPORTS = """From MV Require Import Base Record Regex Typing Pipeline Py PyObj PyHeap KitLookup Glue SrcRun.
From Coq Require Import String.
Open Scope Z_scope.
"""

CIT_RX = re.compile(r"^\[(\d+)\]$")


# ------------------------------------------------------------ worker side

def dump_input(ent):
    """an entity's record as the implementation holds it now (after any rotation by the harness)"""
    rec = ent.record
    d = recutil.dump_record(rec)
    for f, g in zip(rec.features, d["features"]):
        if f.type == "source" and "plasmid" in f.qualifiers:
            g["plasmid"] = f.qualifiers["plasmid"]
    d["refs"] = [recutil.ref_id(r) for r in rec.annotations["references"]] if "references" in rec.annotations else None
    d["topology"] = rec.annotations.get("topology")
    d["other"] = [[k, v] for k, v in rec.annotations.items() if k not in ("references", "topology") and isinstance(v, str)]
    d["obj"] = id(rec)
    return d


def dump_product(prod):
    d = recutil.dump_record(prod)
    for f, g in zip(prod.features, d["features"]):
        if f.type == "source" and "plasmid" in f.qualifiers:
            g["plasmid"] = f.qualifiers["plasmid"]
    ann = prod.annotations
    d["refs"] = [recutil.ref_id(r) for r in ann["references"]] if "references" in ann else None
    d["topology"] = ann.get("topology")
    d["other"] = [[k, v] for k, v in ann.items() if k not in ("references", "topology")]
    return d


# ------------------------------------------------------------ driver side

class Interner(object):
    """strings (record ids, names) as numbers; 0 and 1 are taken ("<unknown>", "assembly")"""

    def __init__(self):
        self.t = {"<unknown name>": 0, "<unknown id>": 0, "assembly": 1}

    def __call__(self, s):
        if s not in self.t:
            self.t[s] = len(self.t) + 10
        return self.t[s]


def c_str(s):
    if '"' in s or any(ord(c) > 126 or ord(c) < 32 for c in s):
        raise ValueError("string %r" % s)
    return '"%s"%%string' % s


def c_cit(c):
    if isinstance(c, dict):
        return "(QRef %d)" % c["ref"]
    return "(QStr %s)" % c_str(c)


def c_feature(f, intern=None):
    q = f.get("q")
    label = 0 if q is None else q + 1
    if f["type"] == "source" and f.get("plasmid") is not None and intern is not None:
        # the qualifiers of a provenance feature, as add_as_source builds them: they name the plasmid
        pid = f["plasmid"][0] if isinstance(f["plasmid"], list) else f["plasmid"]
        label = 901 + intern(pid)
    quals = "(Q %d %s)" % (label, "(Some [%s])" % "; ".join(c_cit(c) for c in f["cit"]) if "cit" in f else "None")
    return "(F %s %d %s [%s])" % ("true" if f["type"] == "source" else "false", recutil.type_id(f["type"]), quals,
                                  "; ".join(recutil.c_part(p) for p in f["parts"]))


def c_refs(refs):
    return "None" if refs is None else "(Some [%s])" % "; ".join("(QRef %d)" % r for r in refs)


def c_line(line, intern):
    if line.startswith("Generated with moclo v"):
        return "LGenerated"
    if line.startswith("Vector: "):
        return "(LVector %d)" % intern(line[len("Vector: "):])
    if line.startswith("Modules: "):
        return "(LModules [%s])" % "; ".join("%d%%nat" % intern(x) for x in line[len("Modules: "):].split(", "))
    raise ValueError("comment line %r" % line)


def c_other(other, intern):
    out = []
    for k, v in other:
        if isinstance(v, str):
            out.append("(%s, AStr %s)" % (c_str(k), c_str(v)))
        elif k == "comment" and isinstance(v, list):
            out.append("(%s, AComment [%s])" % (c_str(k), "; ".join(c_line(x, intern) for x in v)))
        else:
            raise ValueError("annotation %r" % k)
    return "[" + "; ".join(out) + "]"


def c_record(d, kind, intern):
    feats = [f for f in d["features"] if f["parts"] is not None]
    if len(feats) != len(d["features"]):
        raise ValueError("feature without location")
    if d.get("tracks"):
        raise ValueError("tracks")
    topo = "None" if d.get("topology") is None else "(Some %s)" % c_str(d["topology"])
    return '(PR %s (dna "%s") %d [%s] (AN %s %s %s) [] %d)' % (
        kind, d["seq"], intern(d["id"]), "; ".join(c_feature(f, intern) for f in feats), topo, c_refs(d.get("refs")),
        c_other(d.get("other", []), intern), intern(d["name"]))


def c_case(ctx, vector, modules, kwargs, obs, product, unused_objs=None):
    """vector / modules: (class description, dump_input); kwargs: {"id": str, "name": str};
    obs: implutil.observe_assembly's observation; product: dump_product or None"""
    intern = Interner()
    objs = {}

    def ent(spec, d):
        oid = objs.setdefault(d["obj"], len(objs))
        return "(ENT %d %s %s)" % (oid, gens.c_cls(ctx, spec), c_record(d, "KCircularRecord", intern))
    v = ent(*vector)
    ms = "[" + "; ".join(ent(*m) for m in modules) + "]"
    kw = "[" + "; ".join("(%s, %d%%nat)" % (c_str(k), intern(val)) for k, val in sorted(kwargs.items())) + "]"
    if obs["out"] == "product":
        p = product
        unused = [objs[modules[i][1]["obj"]] for i in obs["unused"]]
        o = "(RProduct %s [%s])" % (c_record(p, "KCircularRecord", intern), "; ".join("%d%%nat" % u for u in unused))
    else:
        o = "(RError %s)" % c_str(obs["out"] if obs["out"] != "other" else obs["exc"])
    return "(%s, %s, %s, %s)" % (v, ms, kw, o)
