# coding: utf-8
"""./check Cxx [--tier quick|thorough] [--replay file]"""
import argparse
import importlib
import json
import os
import sys
import traceback

sys.path.insert(0, os.path.dirname(os.path.dirname(os.path.abspath(__file__))))
from harness import common  # noqa: E402


def main():
    ap = argparse.ArgumentParser()
    ap.add_argument("prop")
    ap.add_argument("--tier", default=os.environ.get("VERIF_TIER", "quick"))
    ap.add_argument("--replay")
    args = ap.parse_args()
    tier = args.tier if args.tier in ("quick", "thorough") else "quick"
    try:
        seed = int(os.environ.get("VERIF_SEED", "0"))
    except ValueError:
        seed = 0
    prop = args.prop.upper()
    ctx = common.Ctx(prop, tier, seed)
    mod = importlib.import_module("harness.props." + prop)
    common.make_scratch(ctx)
    if args.replay:
        data = json.load(open(args.replay))
        rc = mod.replay(ctx, data)
        sys.exit(rc)
    # 1. regenerate the data part of the model from the working tree, rebuild
    from harness import gen_tables, gen_src
    gen_notes = gen_tables.generate(ctx)
    ctx.notes += gen_notes
    # ... and the translation of the algorithmic methods (Gen/Src.v)
    ctx.notes += gen_src.generate(ctx)
    ok, log = common.coq_make()
    if not ok:
        # a generated table or definition no longer type-checks, or a lemma over it no longer
        # goes through: record which files failed and why (the property's own obligations are
        # examined below), and drop their stale compiled files
        ctx.make_errors = common.make_failures(log)
        ctx.notes.append("make reported errors: " + "; ".join(
            "%s: %s" % (f, e[:300]) for f, e in ctx.make_errors.items())[:3000])
    # 2. the property's theorems
    extra = getattr(mod, "EXTRA_OBLIGATION_FILES", ())
    obligations, discharged, assumptions, names = common.check_props(ctx, extra)
    # 3. correspondence + direct oracle
    try:
        mod.run(ctx)
    except Exception:
        ctx.broken.append({"file": "harness", "theorems": [], "log": traceback.format_exc()[-3000:]})
    rc = common.finish(ctx, obligations, discharged, assumptions, names,
                       getattr(mod, "LEVEL_NOTE", ""))
    sys.exit(rc)


if __name__ == "__main__":
    main()
