# coding: utf-8
"""Runs inside /venv/bin/python against the scratch copy of the working tree:
   worker.py <props module> <function>; JSON list of cases on stdin, JSON list out."""
import importlib
import json
import os
import sys
import warnings

warnings.simplefilter("ignore")
src = os.environ["MOCLO_SRC"]
sys.path.insert(0, os.path.join(src, "moclo"))
import moclo.kits  # noqa: E402
import moclo.registry  # noqa: E402

for ext in ["cidar", "ytk", "ecoflex", "moclo", "plant"]:
    d = os.path.join(src, "moclo-" + ext)
    moclo.kits.__path__.append(os.path.join(d, "moclo", "kits"))
    moclo.registry.__path__.append(os.path.join(d, "moclo", "registry"))

sys.path.insert(0, os.environ.get("PYTHONPATH", "/verif").split(":")[0])


def main():
    mod = importlib.import_module("harness.props." + sys.argv[1])
    fn = getattr(mod, sys.argv[2])
    cases = json.load(sys.stdin)
    out = []
    for c in cases:
        out.append(fn(c))
    json.dump(out, sys.stdout, default=str)


if __name__ == "__main__":
    main()
