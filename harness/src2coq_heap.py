"""Translation of the methods that update objects in place (core/_assembly.py: assemble,
_deref_citations, _ref_citations, _annotate_assembly; core/vectors.py: AbstractVector.assemble)
into the state-and-exception monad of coq/PyHeap.v.

Fail-closed and pattern-directed: every statement and expression form below is one the
Python code uses today; anything else raises Unsupported, the definition is not emitted and
the obligations that mention it break.

Variables have a kind:
  val            an immutable value (number, string, Reference, tuple, list of those)
  loc            a record object (its identity)
  feat           a feature object of a record in the heap (a featref)
  ent            an entity (value; its record is the object at ent_id)
  mgr            the AssemblyManager (value: its fields are never reassigned after __init__)
  refs:<v>:<m>   alias of <v>.annotations["references"], introduced by .get (m = get) or
                 .setdefault (m = sd)
  ann:<v>        alias of <v>.annotations
  set            a local set of object identities
  optmatch/match a match object of _CITATION_RX (or None)
"""
import ast

from .src2coq import Unsupported, cname, EXCEPTIONS

# "<template>".format(x): template -> (coq function, kind of the result)
FORMATS = {
    "[{}]": ("cit_format_index", "val"),
    "Generated with moclo v{}": ("fmt_generated", "cline"),
    "Vector: {}": ("LVector", "cline"),
    "Modules: {}": ("LModules", "cline"),
}
# annotations of the product whose values are plain strings
ANN_STR_KEYS = {"topology", "organism", "source", "molecule_type", "data_file_division"}


def u(e):
    return ast.unparse(e)


class HFn(object):
    def __init__(self, tr, spec, fdef):
        self.tr = tr
        self.spec = spec
        self.fdef = fdef
        self.tmp = 0
        self.kinds = dict(spec["kinds"])          # parameter kinds
        self.calls = dict(spec.get("calls", {}))  # "self._m" -> dict(coq=, style=heap|value, args=[kinds], ret=kind, fuel=bool, warns=bool)

    def fresh(self):
        self.tmp += 1
        return "t%d" % self.tmp

    # ---- expressions: -> (lines, atom, kind) ---------------------------------
    def ev(self, e, env):
        src = u(e)
        if isinstance(e, ast.Constant):
            if isinstance(e.value, bool) or e.value is None:
                raise Unsupported("constant %r" % (e.value,))
            if isinstance(e.value, int):
                return [], "(%d)%%Z" % e.value, "val"
            raise Unsupported("bare string constant %r" % (e.value,))
        if isinstance(e, ast.Name):
            if e.id == "__version__":
                return [], "moclo_version", "val"
            if e.id not in env:
                raise Unsupported("unknown name %s" % e.id)
            return [], cname(e.id), env[e.id]
        if isinstance(e, ast.Tuple):
            ls, atoms = [], []
            for x in e.elts:
                l, a, _k = self.ev(x, env)
                ls += l
                atoms.append(a)
            return ls, "(" + ", ".join(atoms) + ")", "val"
        if isinstance(e, ast.BinOp) and isinstance(e.op, (ast.Add, ast.Sub)):
            # [module] + list(modules)
            if isinstance(e.op, ast.Add) and isinstance(e.left, ast.List) and len(e.left.elts) == 1 \
                    and isinstance(e.right, ast.Call) and u(e.right.func) == "list" and len(e.right.args) == 1:
                l1, a1, k1 = self.ev(e.left.elts[0], env)
                l2, a2, k2 = self.ev(e.right.args[0], env)
                if k1 != "ent" or k2 != "ents":
                    raise Unsupported("list concatenation %s" % src)
                return l1 + l2, "([%s] ++ %s)" % (a1, a2), "ents"
            l1, a1, k1 = self.ev(e.left, env)
            l2, a2, k2 = self.ev(e.right, env)
            if k1 != "int" or k2 != "val":
                raise Unsupported("arithmetic %s" % src)
            return l1 + l2, "(%s %s %s)" % (a1, "+" if isinstance(e.op, ast.Add) else "-", a2), "int"
        if isinstance(e, ast.UnaryOp) and isinstance(e.op, ast.Not):
            l, a, k = self.ev(e.operand, env)
            if k != "bool":
                raise Unsupported("not on %s" % k)
            return l, "(negb %s)" % a, "bool"
        if isinstance(e, ast.Compare) and len(e.ops) == 1:
            return self.compare(e, env)
        if isinstance(e, ast.Attribute):
            return self.attribute(e, env)
        if isinstance(e, ast.Subscript):
            return self.subscript(e, env)
        if isinstance(e, ast.Call):
            return self.call(e, env)
        raise Unsupported("expression %s" % src)

    def loc_of(self, e, env):
        """an expression denoting a record object -> atom of its identity"""
        if isinstance(e, ast.Name) and env.get(e.id) == "loc":
            return cname(e.id)
        if isinstance(e, ast.Attribute) and e.attr == "record":
            l, a, k = self.ev(e.value, env)
            if k == "ent" and not l:
                return "(ent_id %s)" % a
        raise Unsupported("not a record object: %s" % u(e))

    def feat_of(self, e, env):
        if isinstance(e, ast.Name) and env.get(e.id) == "feat":
            return cname(e.id)
        raise Unsupported("not a feature object: %s" % u(e))

    def is_cits(self, e, env):
        """feature.qualifiers["citation"] -> the feature atom"""
        if isinstance(e, ast.Subscript) and isinstance(e.slice, ast.Constant) and e.slice.value == "citation" \
                and isinstance(e.value, ast.Attribute) and e.value.attr == "qualifiers":
            return self.feat_of(e.value.value, env)
        return None

    def refs_read(self, name, env):
        """current value of an alias of annotations["references"] -> (lines, atom)"""
        _tag, v, mode = env[name].split(":")
        t = self.fresh()
        prim = "h_refs_get_or_empty" if mode == "get" else "h_refs"
        return ["%s <~ %s %s ;;" % (t, prim, cname(v))], t

    def attribute(self, e, env):
        src = u(e)
        if isinstance(e.value, ast.Name) and env.get(e.value.id) == "mgr":
            table = {"elements": ("am_elements", "ents"), "modules": ("am_modules", "ents"), "vector": ("am_vector", "ent"),
                     "id": ("am_id", "val"), "name": ("am_name", "val")}
            if e.attr in table:
                return [], "(%s %s)" % (table[e.attr][0], cname(e.value.id)), table[e.attr][1]
        if e.attr == "id" and isinstance(e.value, ast.Attribute) and e.value.attr == "record":
            loc = self.loc_of(e.value, env)
            t = self.fresh()
            return ["%s <~ h_get_id %s ;;" % (t, loc)], t, "val"
        if e.attr == "features":
            loc = self.loc_of(e.value, env)
            t = self.fresh()
            return ["%s <~ h_features %s ;;" % (t, loc)], t, "feats"
        raise Unsupported("attribute %s" % src)

    def subscript(self, e, env):
        if isinstance(e.value, ast.Name) and env.get(e.value.id, "").startswith("refs:"):
            l0, a0 = self.refs_read(e.value.id, env)
            l1, a1, k1 = self.ev(e.slice, env)
            if k1 != "int":
                raise Unsupported("index %s" % u(e.slice))
            t = self.fresh()
            return l1 + l0 + ["%s <~ hlift (py_getitem %s %s) ;;" % (t, a0, a1)], t, "val"
        raise Unsupported("subscript %s" % u(e))

    def compare(self, e, env):
        op, right = e.ops[0], e.comparators[0]
        if isinstance(op, (ast.In, ast.NotIn)):
            neg = isinstance(op, ast.NotIn)
            wrap = (lambda a: "(negb %s)" % a) if neg else (lambda a: a)
            # "citation" in feature.qualifiers
            if isinstance(e.left, ast.Constant) and e.left.value == "citation" and isinstance(right, ast.Attribute) \
                    and right.attr == "qualifiers":
                f = self.feat_of(right.value, env)
                t = self.fresh()
                return ["%s <~ h_quals_has_citation %s ;;" % (t, f)], wrap(t), "bool"
            if isinstance(right, ast.Name) and env.get(right.id, "").startswith("refs:"):
                l1, a1, k1 = self.ev(e.left, env)
                l0, a0 = self.refs_read(right.id, env)
                return l1 + l0, wrap("(qcit_in %s %s)" % (a1, a0)), "bool"
            if isinstance(right, ast.Name) and env.get(right.id) == "set":
                l1, a1, k1 = self.ev(e.left, env)
                return l1, wrap("(py_set_mem %s %s)" % (a1, cname(right.id))), "bool"
        raise Unsupported("comparison %s" % u(e))

    def call(self, e, env):
        src = u(e)
        f = u(e.func)
        if f == "id" and len(e.args) == 1:
            return [], self.loc_of(e.args[0], env), "val"
        if f == "set" and not e.args:
            return [], "[]", "set"
        if f == "int" and len(e.args) == 1:
            l, a, k = self.ev(e.args[0], env)
            t = self.fresh()
            return l + ["%s <~ hlift (py_int_of_str %s) ;;" % (t, a)], t, "int"
        if f == "list" and len(e.args) == 1:
            ft = self.is_cits(e.args[0], env)
            if ft:
                t = self.fresh()
                return ["%s <~ h_cits_list %s ;;" % (t, ft)], t, "val"
        if f == "self._CITATION_RX.match" and len(e.args) == 1:
            self.check_regex()
            l, a, k = self.ev(e.args[0], env)
            t = self.fresh()
            return l + ["%s <~ hlift (cit_rx_match %s) ;;" % (t, a)], t, "optmatch"
        if isinstance(e.func, ast.Attribute) and e.func.attr == "group" and isinstance(e.func.value, ast.Name) \
                and env.get(e.func.value.id) == "match" and len(e.args) == 1:
            l, a, k = self.ev(e.args[0], env)
            t = self.fresh()
            return l + ["%s <~ hlift (citmatch_group %s %s) ;;" % (t, cname(e.func.value.id), a)], t, "val"
        if isinstance(e.func, ast.Attribute) and e.func.attr == "index" and isinstance(e.func.value, ast.Name) \
                and env.get(e.func.value.id, "").startswith("refs:") and len(e.args) == 1:
            l1, a1, k1 = self.ev(e.args[0], env)
            l0, a0 = self.refs_read(e.func.value.id, env)
            t = self.fresh()
            return l1 + l0 + ["%s <~ hlift (py_list_index %s %s) ;;" % (t, a0, a1)], t, "int"
        if isinstance(e.func, ast.Attribute) and e.func.attr == "format" and isinstance(e.func.value, ast.Constant) \
                and e.func.value.value in FORMATS and len(e.args) == 1 and not e.keywords:
            fn, kind = FORMATS[e.func.value.value]
            l, a, k = self.format_arg(e.args[0], env)
            return l, "(%s %s)" % (fn, a), kind
        if isinstance(e.func, ast.Attribute) and e.func.attr == "get" and isinstance(e.func.value, ast.Name) \
                and env.get(e.func.value.id) == "kwargs" and len(e.args) == 2 \
                and isinstance(e.args[0], ast.Constant) and isinstance(e.args[1], ast.Constant) \
                and e.args[1].value == "assembly":
            return [], '(kwargs_get %s "%s"%%string str_assembly)' % (cname(e.func.value.id), e.args[0].value), "val"
        if f in self.calls:
            return self.method_call(self.calls[f], e, env)
        raise Unsupported("call %s" % src)

    def format_arg(self, a, env):
        # ", ".join(mod.record.id for mod in self.modules)
        if isinstance(a, ast.Call) and isinstance(a.func, ast.Attribute) and a.func.attr == "join" \
                and isinstance(a.func.value, ast.Constant) and a.func.value.value == ", " and len(a.args) == 1 \
                and isinstance(a.args[0], ast.GeneratorExp) and len(a.args[0].generators) == 1 \
                and not a.args[0].generators[0].ifs and isinstance(a.args[0].generators[0].target, ast.Name):
            g = a.args[0].generators[0]
            li, ai, ki = self.ev(g.iter, env)
            if ki != "ents":
                raise Unsupported("join over %s" % u(g.iter))
            env2 = dict(env)
            env2[g.target.id] = "ent"
            le, ae, ke = self.ev(a.args[0].elt, env2)
            t = self.fresh()
            body = "\n".join(le) + "\nhret %s" % ae
            return li + ["%s <~ hmapM (fun %s =>\n%s) %s ;;" % (t, cname(g.target.id), body, ai)], t, "val"
        return self.ev(a, env)

    def method_call(self, entry, e, env):
        args = list(e.args)
        if e.keywords:
            order = entry.get("params")
            if not order or args:
                raise Unsupported("keyword call %s" % u(e))
            kw = {k.arg: k.value for k in e.keywords}
            if sorted(kw) != sorted(order):
                raise Unsupported("keywords of %s" % u(e))
            ls = []
            vals = {}
            for k in e.keywords:            # evaluated in the order written
                l, a, kd = self.ev(k.value, env)
                ls += l
                vals[k.arg] = (a, kd)
            atoms = [vals[p] for p in order]
        else:
            ls, atoms = [], []
            for a in args:
                try:
                    loc = self.loc_of(a, env)
                    atoms.append((loc, "loc"))
                    continue
                except Unsupported:
                    pass
                l, at, kd = self.ev(a, env)
                ls += l
                atoms.append((at, kd))
        want = entry["args"]
        if [k for _a, k in atoms] != want:
            raise Unsupported("arguments of %s: %s, expected %s" % (u(e), [k for _a, k in atoms], want))
        recv = []
        if entry.get("recv", True):
            if not (isinstance(e.func, ast.Attribute) and isinstance(e.func.value, ast.Name)
                    and env.get(e.func.value.id) == "mgr"):
                raise Unsupported("receiver of %s" % u(e))
            recv = [cname(e.func.value.id)]
        t = self.fresh()
        fuel = "fuel " if entry.get("fuel") else ""
        if entry["style"] == "heap":
            comp = "%s %s%s" % (entry["coq"], fuel, " ".join(recv + [a for a, _k in atoms]))
        else:
            # a value-style method sees its (entity-bearing) arguments as they are now
            comp = "hpure (fun h => %s %s%s)" % (entry["coq"], fuel, " ".join(
                entry.get("pre", []) + ["(refresh h %s)" % a if k in ("mgr", "ent", "ents", "entdict") else a
                                        for a, k in [(r, "mgr") for r in recv] + atoms]))
        return ls + ["%s <~ %s ;;" % (t, comp)], t, entry["ret"]

    def check_regex(self):
        """_CITATION_RX must be the pattern cit_rx_match implements"""
        cls = [n for n in self.tr.trees[self.spec["file"]].body if isinstance(n, ast.ClassDef) and n.name == self.spec["class"]][0]
        for n in cls.body:
            if isinstance(n, ast.Assign) and u(n.targets[0]) == "_CITATION_RX":
                if u(n.value) != "re.compile('\\\\[(\\\\d*)\\\\]')":
                    raise Unsupported("_CITATION_RX is %s" % u(n.value))
                return
        raise Unsupported("_CITATION_RX not found")

    # ---- statements ----------------------------------------------------------
    def assigned(self, stmts):
        out = []
        for s in stmts:
            for n in ast.walk(s):
                if isinstance(n, ast.Assign):
                    for t in n.targets:
                        if isinstance(t, ast.Name) and t.id not in out:
                            out.append(t.id)
                elif isinstance(n, ast.Expr) and isinstance(n.value, ast.Call) and isinstance(n.value.func, ast.Attribute) \
                        and n.value.func.attr == "add" and isinstance(n.value.func.value, ast.Name):
                    if n.value.func.value.id not in out:
                        out.append(n.value.func.value.id)
        return out

    def tup(self, names):
        if not names:
            return "tt"
        if len(names) == 1:
            return cname(names[0])
        return "(" + ", ".join(cname(n) for n in names) + ")"

    def pat(self, names):
        if not names:
            return "_"
        if len(names) == 1:
            return cname(names[0])
        return "'(" + ", ".join(cname(n) for n in names) + ")"

    def block(self, stmts, env, final):
        """final(env) -> text ending the block"""
        if not stmts:
            return final(env)
        s, rest = stmts[0], stmts[1:]
        if isinstance(s, ast.Expr) and isinstance(s.value, ast.Constant) and isinstance(s.value.value, str):
            return self.block(rest, env, final)
        if isinstance(s, ast.Return):
            if rest:
                raise Unsupported("code after return")
            l, a, k = self.ev(s.value, env)
            return "\n".join(l + [self.ret_text(a, env)])
        if isinstance(s, ast.Raise):
            name = u(s.exc.func) if isinstance(s.exc, ast.Call) else u(s.exc)
            if name not in EXCEPTIONS:
                raise Unsupported("raise %s" % name)
            return "hraise %s" % EXCEPTIONS[name][0]
        if isinstance(s, ast.Assign):
            return self.assign(s, rest, env, final)
        if isinstance(s, ast.Expr):
            return self.exprstmt(s, rest, env, final)
        if isinstance(s, ast.If):
            return self.ifstmt(s, rest, env, final)
        if isinstance(s, ast.For):
            return self.forstmt(s, rest, env, final)
        if isinstance(s, ast.Try):
            return self.trystmt(s, rest, env, final)
        raise Unsupported("statement %s" % type(s).__name__)

    def ret_text(self, atom, env):
        if self.spec.get("warns"):
            return "hret (%s, warnings_acc)" % atom
        return "hret %s" % atom

    def assign(self, s, rest, env, final):
        src = u(s)
        v = s.value
        # chained / plain assignment into the annotations of a record
        if all(isinstance(t, ast.Subscript) and isinstance(t.value, ast.Name) and env.get(t.value.id, "").startswith("ann:")
               and isinstance(t.slice, ast.Constant) and isinstance(t.slice.value, str) for t in s.targets):
            if isinstance(v, ast.Constant) and isinstance(v.value, str):
                if '"' in v.value:
                    raise Unsupported("string %r" % v.value)
                for t in s.targets:
                    if t.slice.value not in ANN_STR_KEYS:
                        raise Unsupported("annotation %r" % t.slice.value)
                ls, val = [], '(AStr "%s"%%string)' % v.value
            elif isinstance(v, ast.List):
                if [t.slice.value for t in s.targets] != ["comment"]:
                    raise Unsupported("list annotation %s" % src)
                ls, atoms = [], []
                for x in v.elts:
                    l, a, k = self.ev(x, env)
                    if k != "cline":
                        raise Unsupported("comment line %s" % u(x))
                    ls += l
                    atoms.append(a)
                val = "(AComment [%s])" % "; ".join(atoms)
            else:
                raise Unsupported("annotation value %s" % u(v))
            for t in s.targets:
                recv = env[t.value.id].split(":")[1]
                ls.append('_ <~ h_ann_setitem %s "%s"%%string %s ;;' % (cname(recv), t.slice.value, val))
            return "\n".join(ls) + "\n" + self.block(rest, env, final)
        if len(s.targets) != 1:
            raise Unsupported("assignment %s" % src)
        t = s.targets[0]
        # feature.qualifiers["citation"][i] = value   /   feature.qualifiers["citation"][:] = value
        if isinstance(t, ast.Subscript):
            ft = self.is_cits(t.value, env)
            if ft:
                l, a, k = self.ev(v, env)
                if isinstance(t.slice, ast.Slice) and t.slice.lower is None and t.slice.upper is None and t.slice.step is None:
                    return "\n".join(l + ["_ <~ h_cits_assign %s %s ;;" % (ft, a)]) + "\n" + self.block(rest, env, final)
                li, ai, ki = self.ev(t.slice, env)
                if ki != "int":
                    raise Unsupported("index %s" % u(t.slice))
                return "\n".join(l + li + ["_ <~ h_cit_setitem %s %s %s ;;" % (ft, ai, a)]) + "\n" + self.block(rest, env, final)
            raise Unsupported("assignment %s" % src)
        # record.id = value / record.name = value
        if isinstance(t, ast.Attribute) and isinstance(t.value, ast.Name) and env.get(t.value.id) == "loc" and t.attr in ("id", "name"):
            l, a, k = self.ev(v, env)
            return "\n".join(l + ["_ <~ h_set_%s %s %s ;;" % (t.attr, cname(t.value.id), a)]) + "\n" + self.block(rest, env, final)
        if not isinstance(t, ast.Name):
            raise Unsupported("assignment %s" % src)
        env2 = dict(env)
        # aliases
        if isinstance(v, ast.Call) and isinstance(v.func, ast.Attribute) and v.func.attr in ("get", "setdefault") \
                and isinstance(v.func.value, ast.Attribute) and v.func.value.attr == "annotations" \
                and isinstance(v.func.value.value, ast.Name) and env.get(v.func.value.value.id) == "loc" \
                and len(v.args) == 2 and isinstance(v.args[0], ast.Constant) and v.args[0].value == "references" \
                and isinstance(v.args[1], ast.List) and not v.args[1].elts:
            rv = v.func.value.value.id
            if v.func.attr == "get":
                env2[t.id] = "refs:%s:get" % rv
                if self.mutates_alias(rest, t.id):
                    raise Unsupported("mutation through %s, which may be a fresh list" % t.id)
                return self.block(rest, env2, final)
            env2[t.id] = "refs:%s:sd" % rv
            return "_ <~ h_refs_setdefault %s ;;\n" % cname(rv) + self.block(rest, env2, final)
        if isinstance(v, ast.Attribute) and v.attr == "annotations" and isinstance(v.value, ast.Name) and env.get(v.value.id) == "loc":
            env2[t.id] = "ann:%s" % v.value.id
            return self.block(rest, env2, final)
        if isinstance(v, ast.ListComp):
            return self.listcomp(t.id, v, rest, env, final)
        l, a, k = self.ev(v, env)
        if k in ("optmatch",):
            env2[t.id] = k
            return "\n".join(l + ["let %s := %s in" % (cname(t.id), a)]) + "\n" + self.block(rest, env2, final)
        if k == "locw":      # a fresh record and the warnings of the call that built it
            env2[t.id] = "loc"
            return "\n".join(l + ["let '(%s_v, warnings_acc) := %s in" % (cname(t.id), a),
                                  "%s <~ h_alloc %s_v ;;" % (cname(t.id), cname(t.id))]) + "\n" + self.block(rest, env2, final)
        env2[t.id] = k
        return "\n".join(l + ["let %s := %s in" % (cname(t.id), a)]) + "\n" + self.block(rest, env2, final)

    def mutates_alias(self, stmts, name):
        for s in stmts:
            for n in ast.walk(s):
                if isinstance(n, ast.Call) and isinstance(n.func, ast.Attribute) and isinstance(n.func.value, ast.Name) \
                        and n.func.value.id == name and n.func.attr in ("append", "extend", "insert", "pop", "remove", "clear", "sort", "reverse"):
                    return True
                if isinstance(n, (ast.Assign, ast.AugAssign, ast.Delete)):
                    for t in (n.targets if not isinstance(n, ast.AugAssign) else [n.target]):
                        if isinstance(t, ast.Subscript) and isinstance(t.value, ast.Name) and t.value.id == name:
                            return True
        return False

    def listcomp(self, name, v, rest, env, final):
        """[elt for a in A for b in B if c]  ==  nested loops appending to a list"""
        def loops(gens, env_i, acc):
            if not gens:
                l, a, k = self.ev(v.elt, env_i)
                return "\n".join(l + ["hret (%s ++ [%s])" % (acc, a)])
            g = gens[0]
            if not isinstance(g.target, ast.Name):
                raise Unsupported("comprehension target %s" % u(g.target))
            li, ai, ki = self.ev(g.iter, env_i)
            ek = {"ents": "ent", "feats": "feat"}.get(ki)
            if ek is None:
                raise Unsupported("comprehension over %s" % u(g.iter))
            env_j = dict(env_i)
            env_j[g.target.id] = ek
            inner = loops(gens[1:], env_j, "acc")
            for c in reversed(g.ifs):
                lc, ac, kc = self.ev(c, env_j)
                if kc != "bool":
                    raise Unsupported("comprehension condition %s" % u(c))
                inner = "\n".join(lc + ["if %s then\n%s\nelse hret acc" % (ac, inner)])
            return "\n".join(li + ["hfor0 %s %s (fun %s acc =>\n%s)" % (ai, acc, cname(g.target.id), inner)])
        text = loops(v.generators, env, "[]")
        env2 = dict(env)
        env2[name] = "val"
        return "%s <~ (%s) ;;\n" % (cname(name), text) + self.block(rest, env2, final)

    def exprstmt(self, s, rest, env, final):
        c = s.value
        if not isinstance(c, ast.Call):
            raise Unsupported("expression statement %s" % u(s))
        f = c.func
        if isinstance(f, ast.Attribute) and isinstance(f.value, ast.Name):
            k = env.get(f.value.id, "")
            if f.attr == "append" and k.startswith("refs:") and k.endswith(":sd") and len(c.args) == 1:
                l, a, _k = self.ev(c.args[0], env)
                return "\n".join(l + ["_ <~ h_refs_append %s %s ;;" % (cname(k.split(":")[1]), a)]) + "\n" + self.block(rest, env, final)
            if f.attr == "add" and k == "set" and len(c.args) == 1:
                l, a, _k = self.ev(c.args[0], env)
                return "\n".join(l + ["let %s := py_set_add %s %s in" % (cname(f.value.id), cname(f.value.id), a)]) + "\n" + self.block(rest, env, final)
        if u(f) in self.calls:
            l, a, k = self.method_call(self.calls[u(f)], c, env)
            return "\n".join(l) + "\n" + self.block(rest, env, final)
        raise Unsupported("expression statement %s" % u(s))

    def ifstmt(self, s, rest, env, final):
        # if x is None: raise ...   (x: optional match object)
        t = s.test
        if isinstance(t, ast.Compare) and len(t.ops) == 1 and isinstance(t.ops[0], ast.Is) \
                and isinstance(t.comparators[0], ast.Constant) and t.comparators[0].value is None \
                and isinstance(t.left, ast.Name) and env.get(t.left.id) == "optmatch" and not s.orelse \
                and len(s.body) == 1 and isinstance(s.body[0], ast.Raise):
            env2 = dict(env)
            env2[t.left.id] = "match"
            n = cname(t.left.id)
            return "match %s with\n| None =>\n%s\n| Some %s =>\n%s\nend" % (
                n, self.block(s.body, env, final), n, self.block(rest, env2, final))
        if s.orelse:
            raise Unsupported("else branch")
        lc, ac, kc = self.ev(t, env)
        if kc != "bool":
            raise Unsupported("condition %s" % u(t))
        carried = [n for n in self.assigned(s.body) if n in env]
        new = [n for n in self.assigned(s.body) if n not in env]
        if new:
            raise Unsupported("variable first assigned in a branch: %s" % new)
        body = self.block(s.body, env, lambda e2: "hret %s" % self.tup(carried))
        return "\n".join(lc + ["%s <~ (if %s then\n%s\nelse hret %s) ;;" % (self.pat(carried), ac, body, self.tup(carried))]) \
            + "\n" + self.block(rest, env, final)

    def forstmt(self, s, rest, env, final):
        if s.orelse:
            raise Unsupported("for-else")
        carried = [n for n in self.assigned(s.body) if n in env]
        new = [n for n in self.assigned(s.body) if n not in env and n not in self.local_only(s.body)]
        st = self.tup(carried)
        # for i, ref in enumerate(feature.qualifiers.get("citation", [])):
        it = s.iter
        if isinstance(it, ast.Call) and u(it.func) == "enumerate" and len(it.args) == 1:
            a0 = it.args[0]
            if isinstance(a0, ast.Call) and isinstance(a0.func, ast.Attribute) and a0.func.attr == "get" \
                    and isinstance(a0.func.value, ast.Attribute) and a0.func.value.attr == "qualifiers" \
                    and len(a0.args) == 2 and isinstance(a0.args[0], ast.Constant) and a0.args[0].value == "citation" \
                    and isinstance(a0.args[1], ast.List) and not a0.args[1].elts \
                    and isinstance(s.target, ast.Tuple) and len(s.target.elts) == 2 \
                    and all(isinstance(x, ast.Name) for x in s.target.elts):
                ft = self.feat_of(a0.func.value.value, env)
                if self.resizes_cits(s.body):
                    raise Unsupported("the citation list is resized while it is iterated")
                i, ref = s.target.elts[0].id, s.target.elts[1].id
                env2 = dict(env)
                env2[i] = "int"
                env2[ref] = "val"
                n = self.fresh()
                body = self.block(s.body, env2, lambda e2: "hret %s" % st)
                text = "%s <~ h_cits_len %s ;;\n%s <~ hfor0 (py_range 0 %s) %s (fun %s %s =>\n%s <~ h_cit_at %s %s ;;\n%s) ;;" % (
                    n, ft, self.pat(carried), n, st, cname(i), self.pat(carried) if carried else "_", cname(ref), ft, cname(i), body)
                return text + "\n" + self.block(rest, env, final)
            raise Unsupported("enumerate(%s)" % u(a0))
        li, ai, ki = self.ev(it, env)
        env2 = dict(env)
        if ki in ("ents", "feats") and isinstance(s.target, ast.Name):
            env2[s.target.id] = {"ents": "ent", "feats": "feat"}[ki]
            binder = cname(s.target.id)
        elif ki == "val" and isinstance(s.target, ast.Tuple) and self.spec.get("tuple_loops", {}).get(u(it)):
            kinds = self.spec["tuple_loops"][u(it)]
            names = [x.id for x in s.target.elts]
            for n_, k_ in zip(names, kinds):
                env2[n_] = k_
            binder = "'(%s)" % ", ".join(cname(n_) for n_ in names)
        else:
            raise Unsupported("loop over %s" % u(it))
        body = self.block(s.body, env2, lambda e2: "hret %s" % st)
        text = "\n".join(li + ["%s <~ hfor0 %s %s (fun %s %s =>\n%s) ;;" % (
            self.pat(carried), ai, st, binder, self.pat(carried) if carried else "_", body)])
        return text + "\n" + self.block(rest, env, final)

    def local_only(self, stmts):
        return self.assigned(stmts)

    def resizes_cits(self, stmts):
        for s in stmts:
            for n in ast.walk(s):
                if isinstance(n, ast.Assign):
                    for t in n.targets:
                        if isinstance(t, ast.Subscript) and isinstance(t.slice, ast.Slice):
                            return True
                if isinstance(n, ast.Call) and isinstance(n.func, ast.Attribute) \
                        and n.func.attr in ("append", "extend", "insert", "pop", "remove", "clear") \
                        and "citation" in u(n.func.value):
                    return True
                if isinstance(n, ast.Delete):
                    return True
        return False

    def trystmt(self, s, rest, env, final):
        if s.handlers or s.orelse or not s.finalbody:
            raise Unsupported("try with handlers")
        out = [n for n in self.assigned(s.body) if n not in env]       # assigned in the body, visible afterwards
        used = [n for n in out if any(isinstance(x, ast.Name) and x.id == n for r in rest for x in ast.walk(r))]
        carried = [n for n in self.assigned(s.body) if n in env]
        if carried:
            raise Unsupported("variables reassigned in try: %s" % carried)
        kinds = {}

        def body_final(e2):
            for n in used:
                kinds[n] = e2[n]
            names = [cname(n) for n in used] + (["warnings_acc"] if self.spec.get("warns") else [])
            return "hret " + ("(" + ", ".join(names) + ")" if len(names) > 1 else (names[0] if names else "tt"))
        body = self.block(s.body, env, body_final)
        fin = self.block(s.finalbody, env, lambda e2: "hret tt")
        env2 = dict(env)
        for n in used:
            env2[n] = kinds[n]
        names = [cname(n) for n in used] + (["warnings_acc"] if self.spec.get("warns") else [])
        pat = "'(" + ", ".join(names) + ")" if len(names) > 1 else (names[0] if names else "_")
        return "%s <~ hfinally (\n%s)\n(\n%s) ;;\n" % (pat, body, fin) + self.block(rest, env2, final)

    def translate(self):
        env = dict(self.kinds)
        body = [n for n in self.fdef.body]
        return self.block(body, env, lambda e2: "hret tt")


def emit(tr, spec):
    """-> Coq text of one heap-style definition"""
    fdef = tr.find(spec["file"], spec.get("class"), spec["method"])
    got = [a.arg for a in fdef.args.args] + ([fdef.args.vararg.arg] if fdef.args.vararg else []) \
        + ([fdef.args.kwarg.arg] if fdef.args.kwarg else [])
    expected = [n for n, _t in spec["sig"]]
    if got != expected:
        raise Unsupported("%s: parameters %s, expected %s" % (spec["name"], got, expected))
    decos = [ast.unparse(d) for d in fdef.decorator_list]
    if decos != spec.get("decorators", []):
        raise Unsupported("%s is decorated with %s, expected %s" % (spec["name"], decos, spec.get("decorators", [])))
    body = HFn(tr, spec, fdef).translate()
    binders = (["(fuel : nat)"] if spec.get("fuel") else []) + ["(%s : %s)" % (cname(n), t) for n, t in spec["sig"]]
    return "(* %s: %s%s *)\nDefinition %s %s : hexc (%s) :=\n%s.\n" % (
        spec["file"], (spec.get("class") + "." if spec.get("class") else ""), spec["method"],
        spec["name"], " ".join(binders), spec["rettype"], body)
