# coding: utf-8
"""Fail-closed translator from the Python source of moclo's algorithmic methods to
Gallina (coq/Gen/Src.v), run on every check against the working tree.

A method is read with `ast` (never imported) and translated statement by statement
into the exception monad of coq/Py.v: local variables become `let`s, sub-expressions
that can raise become binds (left-to-right, as Python evaluates them), `if` joins the
variables its branches assign, `for`/`while` loops thread the variables their bodies
re-assign, `return` inside a loop leaves it, `try/except` becomes `py_try`.  What the
source does with objects that are not moclo's own (re matches, Biopython records,
features, locations, enzymes, dictionaries) is mapped through the primitive tables
below onto coq/PyObj.v.  Anything outside the tables raises `Unsupported`: the
method is then missing from Gen/Src.v and the equivalence theorems about it (and
every property theorem stated through them) no longer compile.

The equivalence of each generated definition with the hand-written model, for all
inputs, is proved in coq/SrcEquiv*.v.
"""
import ast
import os


class Unsupported(Exception):
    pass


KEYWORDS = {"match", "end", "in", "let", "fun", "if", "then", "else", "return", "with", "at", "as",
            "type", "fix", "forall", "exists", "Set", "Prop", "Type", "mod", "where", "for", "using",
            "cofix", "struct", "id", "ref", "exc", "bind", "word", "span", "loc", "part", "feature",
            "record", "fuel", "start", "name", "seq", "index", "string", "pos", "module", "mod"}


def cname(n):
    """Coq identifier for a Python local"""
    return n + "_" if n in KEYWORDS or n.startswith("_") else n


# ---------------------------------------------------------------------------
# primitive tables (the translator's configuration: part of the trusted base)
# ---------------------------------------------------------------------------

# attribute reads: (receiver hint or None, attribute) -> (coq function, "pure"|"exc")
ATTRS = {
    (None, "seq"): ("py_seq", "pure"),
    (None, "features"): ("pr_features", "pure"),
    (None, "annotations"): ("pr_annotations", "pure"),
    (None, "letter_annotations"): ("pr_letter_annotations", "pure"),
    (None, "name"): ("pr_name", "pure"),
    (None, "description"): ("pr_description", "pure"),
    (None, "dbxrefs"): ("pr_dbxrefs", "pure"),
    (None, "id"): ("pr_id", "pure"),
    ("feature", "id"): ("feat_id", "pure"),
    ("item", "id"): ("item_id", "pure"),
    ("feature", "type"): ("feat_type", "pure"),
    ("feature", "qualifiers"): ("feat_qualifiers", "pure"),
    ("feature", "location"): ("feat_location", "pure"),
    (None, "parts"): ("loc_parts", "pure"),
    (None, "start"): ("ploc_start", "pure"),
    (None, "end"): ("ploc_end", "pure"),
    (None, "strand"): ("ploc_strand", "pure"),
    (None, "ref"): ("ploc_ref", "pure"),
    (None, "ref_db"): ("ploc_ref_db", "pure"),
    (None, "record"): ("ent_record", "pure"),
    ("self", "modules"): ("am_modules", "pure"),
    ("self", "vector"): ("am_vector", "pure"),
    ("self", "elements"): ("am_elements", "pure"),
    (None, "cutter"): ("ent_cutter", "pure"),
    ("six", "MAXSIZE"): ("py_MAXSIZE", "const"),
}

# method calls: (receiver hint or None, method) -> dict(coq=..., kind=pure|exc|gen, ...)
METHODS = {
    ("match", "end"): dict(coq="re_end", kind="pure"),
    ("match", "start"): dict(coq="re_start", kind="pure"),
    ("match", "span"): dict(coq="re_span", kind="exc"),
    ("regex", "match"): dict(coq="re_match", kind="pure"),
    (None, "upper"): dict(coq="seq_upper", kind="pure"),
    (None, "lower"): dict(coq="str_lower", kind="pure"),
    (None, "reverse_complement"): dict(coq="seq_rc", kind="pure"),
    (None, "is_3overhang"): dict(coq="enz_is_3overhang", kind="pure"),
    (None, "catalyse"): dict(coq="enz_catalyse", kind="pure"),
    (None, "_get_regex"): dict(coq="ent_regex", kind="pure"),
    (None, "__subclasses__"): dict(coq="pcl_subclasses", kind="pure"),
    (None, "is_valid"): dict(coq="StructuredRecord_is_valid", kind="gen"),
    ("cls", "structure"): dict(coq="cls_structure", kind="pure"),
    ("annotations", "get"): dict(coq="ann_get_%(key)s", kind="pure", constkey=True),
    (None, "overhang_start"): dict(coq="ent_overhang_start", kind="exc"),
    (None, "overhang_end"): dict(coq="ent_overhang_end", kind="exc"),
    (None, "target_sequence"): dict(coq="ent_target_sequence", kind="exc"),
}

# plain function calls
FUNCS = {
    "len": dict(coq="py_len_of", kind="pure"),
    "min": dict(coq="Z.min", kind="pure"),
    "str": dict(coq="py_str", kind="pure"),
    "list": dict(coq="py_deepcopy", kind="pure"),
    "range": dict(coq="py_range", kind="pure"),
    "SeqMatch": dict(coq="mk_SeqMatch", kind="pure"),
    "add_as_source": dict(coq="add_as_source", kind="gen"),
    "SeqFeature/3": dict(coq="mk_SeqFeature3", kind="pure", params=["location", "type", "qualifiers"]),
    "FeatureLocation/2": dict(coq="mk_FeatureLocation2", kind="pure"),
    "isabstract": dict(coq="pcl_isabstract", kind="pure"),
    "iter": dict(coq="dict_keys", kind="pure"),
    "DNARegex": dict(coq="mk_DNARegex", kind="pure"),
    "copy.deepcopy": dict(coq="py_deepcopy", kind="pure"),
    "SeqRecord": dict(coq="mk_SeqRecord", kind="pure"),
    "SeqRecord/1": dict(coq="mk_SeqRecord1", kind="pure"),
    "CircularRecord": dict(coq="CircularRecord_new", kind="exc"),
    "FeatureLocation": dict(coq="mk_FeatureLocation", kind="pure", kwargs=["start", "end", "strand", "ref", "ref_db"]),
    "CompoundLocation": dict(coq="mk_CompoundLocation", kind="pure"),
    "SeqFeature": dict(coq="mk_SeqFeature", kind="pure", kwargs=["location", "type", "id", "qualifiers"]),
    "type(self)/1": dict(coq="CircularRecord_new", kind="exc"),
    "type(self)": dict(coq="mk_CircularRecord_kw", kind="pure",
                       kwargs=["seq", "id", "name", "description", "dbxrefs", "features", "annotations",
                               "letter_annotations"]),
}

ISINSTANCE = {
    "(Bio.Seq.Seq, Bio.SeqRecord.SeqRecord)": "py_isinstance_seq_or_record",
    "Bio.SeqRecord.SeqRecord": "is_SeqRecord",
    "CircularRecord": "is_CircularRecord",
}

EXCEPTIONS = {
    "errors.InvalidSequence": ("XInvalidSequence", []),
    "errors.IllegalSite": ("XIllegalSite", []),
    "errors.DuplicateModules": ("XDuplicateModules", ["ent_id", "ent_id"]),
    "errors.MissingModule": ("XMissingModule", [""]),
    "TypeError": ("XTypeError", []),
    "KeyError": ("XKeyError", ["KeyStr"]),
    "ValueError": ("XValueError", []),
    "RuntimeError": ("XRuntimeError", []),
    "NotImplementedError": ("XNotImplementedError", []),
}

# constructor of pyexc for each exception class the source raises; `except T` catches the
# constructors of T and of its subclasses as declared in moclo/errors.py (read by ast)
EXC_CLASS = {"KeyError": "XKeyError", "InvalidSequence": "XInvalidSequence", "IllegalSite": "XIllegalSite",
             "DuplicateModules": "XDuplicateModules", "MissingModule": "XMissingModule",
             "TypeError": "XTypeError", "ValueError": "XValueError", "RuntimeError": "XRuntimeError",
             "IndexError": "XIndexError", "ZeroDivisionError": "XZeroDivisionError",
             "NotImplementedError": "XNotImplementedError"}
EXC_ARITY = {"XKeyError": 1, "XDuplicateModules": 2, "XMissingModule": 1}
BUILTIN_BASES = {"KeyError": ["LookupError"], "IndexError": ["LookupError"], "ZeroDivisionError": ["ArithmeticError"],
                 "NotImplementedError": ["RuntimeError"]}


def exception_bases(root):
    """class name -> set of all ancestors, for moclo.errors and the builtins used"""
    tree = ast.parse(open(os.path.join(root, "moclo/moclo/errors.py")).read())
    direct = dict(BUILTIN_BASES)
    for n in tree.body:
        if isinstance(n, ast.ClassDef):
            direct[n.name] = [ast.unparse(b).split(".")[-1] for b in n.bases]
    out = {}

    def anc(c, seen):
        for b in direct.get(c, []):
            if b not in seen:
                seen.add(b)
                anc(b, seen)
        return seen
    for c in list(direct) + list(EXC_CLASS):
        out[c] = anc(c, set())
    return out


def hint_of(node):
    """receiver hint: the variable or last attribute name of an expression"""
    if isinstance(node, ast.Name):
        return node.id
    if isinstance(node, ast.Attribute):
        return node.attr
    if isinstance(node, ast.Call):
        return hint_of(node.func)
    return None


def contains_return(stmts):
    for s in stmts:
        for n in ast.walk(s):
            if isinstance(n, ast.Return):
                return True
    return False


class Fn(object):
    """translation of one function"""

    def __init__(self, tr, spec, fdef):
        self.tr = tr
        self.spec = spec
        self.fdef = fdef
        self.tmp = 0
        self.optvars = set(spec.get("optvars", ()))
        self.dictvars = dict(spec.get("dictvars", {}))   # local name -> coq key-equality
        self.attrs = dict(spec.get("attrs", {}))         # (hint, attr) -> coq function (pure)
        self.methods = dict(spec.get("methods", {}))
        self.assume = dict(spec.get("assume", {}))
        self.excvars = set()
        self.ret_opt = spec.get("ret_opt", False)
        self.warns = spec.get("warns", False)

    # -- helpers ---------------------------------------------------------
    def fresh(self):
        self.tmp += 1
        return "t%d" % self.tmp

    def tuple_of(self, names):
        if not names:
            return "tt"
        if len(names) == 1:
            return cname(names[0])
        return "(" + ", ".join(cname(n) for n in names) + ")"

    def pat_of(self, names):
        if not names:
            return "_"
        if len(names) == 1:
            return cname(names[0])
        return "'(" + ", ".join(cname(n) for n in names) + ")"

    def bind_text(self, binds):
        out = []
        for b in binds:
            if b[0] == "bind":
                out.append("%s <- %s ;;\n" % (b[1], b[2]))
            elif b[0] == "let":
                out.append("let %s := %s in\n" % (b[1], b[2]))
            else:
                raise Unsupported("bind kind")
        return "".join(out)

    # -- expressions -----------------------------------------------------
    def expr(self, e):
        """-> (binds, atom)"""
        if isinstance(e, ast.Constant):
            v = e.value
            if v is None:
                return [], "None"
            if v is True:
                return [], "true"
            if v is False:
                return [], "false"
            if isinstance(v, int):
                return [], "(%d)%%Z" % v
            if isinstance(v, str):
                if '"' in v or any(ord(c) > 126 for c in v):
                    raise Unsupported("string constant %r" % v)
                if self.spec.get("strconst"):
                    # strings of this method are texts of DNA patterns: lists of pattern characters
                    return [], '(%s "%s"%%string)' % (self.spec["strconst"], v)
                return [], '"%s"%%string' % v
            raise Unsupported("constant %r" % (v,))
        if isinstance(e, ast.Name):
            return [], cname(e.id)
        if isinstance(e, ast.Attribute):
            return self.attribute(e)
        if isinstance(e, ast.Call):
            return self.call(e)
        if isinstance(e, ast.Subscript):
            return self.subscript(e)
        if isinstance(e, ast.BinOp):
            return self.binop(e.left, e.op, e.right)
        if isinstance(e, ast.UnaryOp):
            b, a = self.expr(e.operand)
            if isinstance(e.op, ast.USub):
                return b, "(- %s)" % a
            if isinstance(e.op, ast.Not):
                return b, "(negb %s)" % a
            raise Unsupported("unary op")
        if isinstance(e, ast.Compare):
            return self.compare(e)
        if isinstance(e, ast.BoolOp):
            return self.boolop(e)
        if isinstance(e, ast.IfExp):
            bt, at = self.expr(e.test)
            b1, a1 = self.expr(e.body)
            b2, a2 = self.expr(e.orelse)
            t = self.fresh()
            comp = "(if %s then %sOk %s else %sOk %s)" % (at, self.bind_text(b1), a1, self.bind_text(b2), a2)
            return bt + [("bind", t, comp)], t
        if isinstance(e, ast.Tuple):
            bs, atoms = [], []
            for x in e.elts:
                b, a = self.expr(x)
                bs += b
                atoms.append(a)
            return bs, "(" + ", ".join(atoms) + ")"
        if isinstance(e, ast.List):
            bs, atoms = [], []
            for x in e.elts:
                b, a = self.expr(x)
                bs += b
                atoms.append(a)
            return bs, "[" + "; ".join(atoms) + "]"
        if isinstance(e, ast.Dict) and not e.keys:
            return [], "[]"
        if isinstance(e, ast.Dict) and all(isinstance(k, ast.Constant) and isinstance(k.value, str)
                                           and k.value.isidentifier() for k in e.keys):
            bs, atoms = [], []
            for v in e.values:
                b, a = self.expr(v)
                bs += b
                atoms.append(a)
            return bs, "(py_dict_%s %s)" % ("_".join(k.value for k in e.keys), " ".join(atoms))
        if isinstance(e, ast.DictComp):
            return self.dictcomp(e)
        if isinstance(e, (ast.GeneratorExp, ast.ListComp)) and len(e.generators) == 1 and not e.generators[0].ifs \
                and isinstance(e.generators[0].target, ast.Name):
            g = e.generators[0]
            bi, ai = self.iter_of(g.iter)
            be, ae = self.expr(e.elt)
            t = self.fresh()
            return bi + [("bind", t, "py_mapM (fun %s => %sOk %s) %s" % (cname(g.target.id), self.bind_text(be), ae, ai))], t
        raise Unsupported("expression %s" % ast.dump(e)[:80])

    def attribute(self, e):
        src = ast.unparse(e)
        if self.spec.get("clsstate") and isinstance(e.value, ast.Name) and e.value.id == "cls" \
                and e.attr not in ("__dict__", "__name__"):
            # reading a class attribute: ordinary lookup along the MRO in the class namespaces
            return [], '(ns_lookup st cls "%s"%%string)' % e.attr
        if src in ("six.MAXSIZE",):
            return [], "py_MAXSIZE"
        if e.attr == "__name__":
            b, _ = self.expr(e.value)
            return b, "tt"
        hint = hint_of(e.value)
        # `ke.args` on a caught exception is handled in subscript()
        for key in ((ast.unparse(e.value), e.attr), (hint, e.attr), (None, e.attr)):
            if key in self.attrs:
                if ast.unparse(e.value).startswith("super("):
                    b, a = [], "self"
                else:
                    b, a = self.expr(e.value)
                fn = self.attrs[key]
                if isinstance(fn, tuple):       # (coq, "exc")
                    t = self.fresh()
                    return b + [("bind", t, "%s %s" % (fn[0], a))], t
                return b, "(%s %s)" % (fn, a) if fn else a
        for key in ((hint, e.attr), (None, e.attr)):
            if key in ATTRS:
                fn, kind = ATTRS[key]
                b, a = self.expr(e.value)
                return b, "(%s %s)" % (fn, a)
        raise Unsupported("attribute %s" % src)

    def args_of(self, call, kwnames=None, params=None, defaults=None):
        """evaluate call arguments left to right; returns (binds, atoms)"""
        bs, atoms = [], []
        if kwnames is not None:
            if call.args:
                raise Unsupported("positional arguments where keywords are expected: %s" % ast.unparse(call))
            given = {k.arg: k.value for k in call.keywords}
            if set(given) != set(kwnames):
                raise Unsupported("keywords %s, expected %s" % (sorted(given), kwnames))
            # Python evaluates keyword arguments in the order written
            vals = {}
            for k in call.keywords:
                b, a = self.expr(k.value)
                bs += b
                vals[k.arg] = a
            return bs, [vals[k] for k in kwnames]
        if params is not None:
            vals = {}
            for p, x in zip(params, call.args):
                b, a = self.expr(x)
                bs += b
                vals[p] = a
            if len(call.args) > len(params):
                raise Unsupported("too many arguments: %s" % ast.unparse(call))
            for k in call.keywords:
                if k.arg not in params or k.arg in vals:
                    raise Unsupported("keyword %s" % k.arg)
                b, a = self.expr(k.value)
                bs += b
                vals[k.arg] = a
            for p in params:
                if p not in vals:
                    if p not in defaults:
                        raise Unsupported("missing argument %s in %s" % (p, ast.unparse(call)))
                    b, a = self.expr(defaults[p])
                    bs += b
                    vals[p] = a
            return bs, [vals[p] for p in params]
        if call.keywords:
            raise Unsupported("keyword arguments: %s" % ast.unparse(call))
        for x in call.args:
            b, a = self.expr(x)
            bs += b
            atoms.append(a)
        return bs, atoms

    def apply(self, entry, pre_atoms, call, binds):
        kind = entry["kind"]
        if kind == "gen":
            g = self.tr.generated.get(entry["coq"])
            if g is None:
                raise Unsupported("call to %s, which was not translated" % entry["coq"])
            b, atoms = self.args_of(call, params=g["params"], defaults=g["defaults"])
            fuel = ["fuel"] if g.get("fuel") else []
            t = self.fresh()
            comp = " ".join([entry["coq"]] + fuel + pre_atoms + atoms)
            return binds + b + [("bind", t, comp)], t
        if entry.get("params"):
            b, atoms = self.args_of(call, params=entry["params"], defaults=entry.get("defaults", {}))
        else:
            b, atoms = self.args_of(call, kwnames=entry.get("kwargs"))
        coq = entry["coq"]
        if entry.get("constkey"):
            k = call.args[0]
            if not (isinstance(k, ast.Constant) and isinstance(k.value, str) and k.value.isidentifier()):
                raise Unsupported("non-constant key: %s" % ast.unparse(call))
            coq = coq % {"key": k.value}
            atoms = atoms[1:]
        term = "(" + " ".join([coq] + pre_atoms + atoms) + ")"
        if kind == "pure":
            return binds + b, term
        t = self.fresh()
        return binds + b + [("bind", t, term[1:-1])], t

    def call(self, e):
        f = e.func
        src = ast.unparse(f)
        # "...".format(...): evaluated for its effects, the text is not modelled
        if isinstance(f, ast.Attribute) and f.attr == "format" and isinstance(f.value, ast.Constant) \
                and f.value.value in self.spec.get("formats", {}) and len(e.args) == 1 and not e.keywords:
            # a template whose result the method uses: configured per method
            b, a = self.expr(e.args[0])
            return b, "(%s %s)" % (self.spec["formats"][f.value.value], a)
        if isinstance(f, ast.Attribute) and f.attr == "format" and isinstance(f.value, (ast.Constant, ast.Name)):
            bs = []
            for x in e.args:
                b, _ = self.expr(x)
                bs += b
            return bs, "tt"
        if self.spec.get("clsstate") and src == "cls.__dict__.get" and len(e.args) == 1 \
                and isinstance(e.args[0], ast.Constant) and isinstance(e.args[0].value, str):
            # the class's own namespace only
            return [], '(ns_own st cls "%s"%%string)' % e.args[0].value
        if src == "isinstance":
            t = ast.unparse(e.args[1])
            key = "isinstance(%s, %s)" % (ast.unparse(e.args[0]), t)
            if key in self.assume:
                return [], "true" if self.assume[key] else "false"
            if t not in ISINSTANCE:
                raise Unsupported(key)
            b, a = self.expr(e.args[0])
            return b, "(%s %s)" % (ISINSTANCE[t], a)
        if src == "type" and len(e.args) == 1:
            b, a = self.expr(e.args[0])
            return b, "tt"
        if src == "six.raise_from":
            return self.expr(e.args[0])
        if isinstance(f, ast.Attribute) and f.attr == "join" and isinstance(f.value, ast.Constant) and f.value.value == "" \
                and len(e.args) == 1 and not e.keywords:
            # "".join(parts): the parts one after the other
            b, a = self.expr(e.args[0])
            return b, "(List.concat %s)" % a
        if src == "sum" and len(e.args) == 1 and isinstance(e.args[0], ast.GeneratorExp) \
                and isinstance(e.args[0].elt, ast.Constant) and e.args[0].elt.value == 1 \
                and len(e.args[0].generators) == 1 and not e.args[0].generators[0].ifs:
            # sum(1 for _ in xs): the number of elements
            b, a = self.iter_of(e.args[0].generators[0].iter)
            return b, "(py_len_of %s)" % a
        if src == "iter" and len(e.args) == 2 and isinstance(e.args[0], ast.Attribute) and e.args[0].attr == "next" \
                and isinstance(e.args[1], ast.Constant) and e.args[1].value is None:
            # iter(tar.next, None): the members in order, until next() returns None
            b, a = self.expr(e.args[0].value)
            return b, "(tar_iter %s)" % a
        if src in self.spec.get("funcs", {}):
            return self.apply(self.spec["funcs"][src], [], e, [])
        if src in ("six.iteritems", "six.itervalues"):
            return self.expr(e.args[0])
        if src == "Seq" and len(e.args) == 1 and isinstance(e.args[0], ast.Constant) and e.args[0].value == "":
            return [], "(mk_Seq [])"
        key_n = "%s/%d" % (src, len(e.args) + len(e.keywords))
        if key_n in FUNCS:
            return self.apply(FUNCS[key_n], [], e, [])
        if src in FUNCS:
            return self.apply(FUNCS[src], [], e, [])
        if isinstance(f, ast.Name) and f.id in self.spec.get("classvars", ()):
            b, atoms = self.args_of(e)
            return b, "(mk_entity %s %s)" % (cname(f.id), " ".join(atoms))
        if isinstance(f, ast.Attribute) and isinstance(f.value, ast.Name) and f.value.id in self.dictvars:
            d, keq = cname(f.value.id), self.dictvars[f.value.id]
            b, atoms = self.args_of(e)
            if f.attr == "get" and len(atoms) == 1:
                return b, "(dict_get %s %s %s)" % (keq, d, atoms[0])
            if f.attr == "values" and not atoms:
                return b, "(dict_values %s)" % d
            raise Unsupported("dictionary method %s" % ast.unparse(e))
        if isinstance(f, ast.Attribute):
            # super(C, self).m(...)  — resolved statically by the spec
            key = (hint_of(f.value), f.attr)
            recv_src = ast.unparse(f.value)
            for k in ((recv_src, f.attr), key, (None, f.attr)):
                if k in self.methods:
                    entry = self.methods[k]
                    if entry.get("norecv"):
                        return self.apply(entry, [], e, [])
                    if recv_src.startswith("super("):
                        b, a = [], "self"
                    else:
                        b, a = self.expr(f.value)
                    return self.apply(entry, [a], e, b)
            for k in (key, (None, f.attr)):
                if k in METHODS:
                    b, a = self.expr(f.value)
                    return self.apply(METHODS[k], [a], e, b)
        raise Unsupported("call %s" % ast.unparse(e)[:100])

    def call_entry(self, e):
        """the table entry a call resolves to (or {})"""
        f = e.func
        if isinstance(f, ast.Attribute):
            recv_src = ast.unparse(f.value)
            for k in ((recv_src, f.attr), (hint_of(f.value), f.attr), (None, f.attr)):
                if k in self.methods:
                    return self.methods[k]
        return {}

    def subscript(self, e):
        s = e.slice
        # ke.args[0] on a caught exception: the key itself
        if (isinstance(e.value, ast.Attribute) and e.value.attr == "args" and isinstance(e.value.value, ast.Name)
                and e.value.value.id in self.excvars and isinstance(s, ast.Constant) and s.value == 0):
            return [], cname(e.value.value.id)
        if ast.unparse(e.value) == "self._data" and self.spec.get("selfdict"):
            bk, ak = self.expr(s)
            t = self.fresh()
            return bk + [("bind", t, "dict_getitem_str self %s" % ak)], t
        b, a = self.expr(e.value)
        if isinstance(s, ast.Slice):
            if s.step is not None:
                raise Unsupported("slice step")
            parts = []
            for x in (s.lower, s.upper):
                if x is None:
                    parts.append("None")
                else:
                    bx, ax = self.expr(x)
                    b += bx
                    parts.append("(Some %s)" % ax)
            t = self.fresh()
            return b + [("bind", t, "py_getslice %s %s %s" % (a, parts[0], parts[1]))], t
        if isinstance(e.value, ast.Name) and e.value.id in self.dictvars:
            bk, ak = self.expr(s)
            t = self.fresh()
            return b + bk + [("bind", t, "dict_getitem %s %s %s" % (self.dictvars[e.value.id], a, ak))], t
        bi, ai = self.expr(s)
        t = self.fresh()
        return b + bi + [("bind", t, "py_getitem %s %s" % (a, ai))], t

    def binop(self, left, op, right):
        b1, a1 = self.expr(left)
        b2, a2 = self.expr(right)
        b = b1 + b2
        if isinstance(op, ast.Sub):
            return b, "(%s - %s)" % (a1, a2)
        if isinstance(op, ast.Mult):
            return b, "(py_mul %s %s)" % (a1, a2)
        table = {ast.Add: "py_addm", ast.Mod: "py_mod", ast.FloorDiv: "py_floordiv",
                 ast.LShift: "py_lshift", ast.RShift: "py_rshift"}
        for k, fn in table.items():
            if isinstance(op, k):
                if fn in ("py_lshift", "py_rshift"):
                    fn = self.methods.get(fn, {}).get("coq", fn)
                    if self.tr.generated.get(fn, {}).get("fuel") or self.spec.get("fuel_calls"):
                        fn = fn + " fuel"
                t = self.fresh()
                return b + [("bind", t, "%s %s %s" % (fn, a1, a2))], t
        raise Unsupported("binary operator %s" % type(op).__name__)

    def compare(self, e):
        operands = [e.left] + list(e.comparators)
        bs, atoms = [], []
        for x in operands:
            b, a = self.expr(x)
            bs += b
            atoms.append(a)
        if ast.unparse(e) in self.assume:
            return bs, "true" if self.assume[ast.unparse(e)] else "false"
        terms = []
        for i, op in enumerate(e.ops):
            l, r = atoms[i], atoms[i + 1]
            ln, rn = operands[i], operands[i + 1]
            if isinstance(op, (ast.Is, ast.IsNot)):
                if isinstance(rn, ast.Constant) and rn.value is None:
                    t = "(is_none %s)" % l
                elif ast.unparse(rn) == "NotImplemented":
                    raise Unsupported("NotImplemented")
                else:
                    t = "(ent_is %s %s)" % (l, r)
                terms.append(t if isinstance(op, ast.Is) else "(negb %s)" % t)
            elif isinstance(op, (ast.Eq, ast.NotEq)):
                if isinstance(rn, ast.Constant) and rn.value == "source" and isinstance(ln, ast.Attribute) \
                        and ln.attr == "type":
                    t = "(ftype_is_source %s)" % l
                else:
                    t = "(py_eq %s %s)" % (l, r)
                terms.append(t if isinstance(op, ast.Eq) else "(negb %s)" % t)
            elif isinstance(op, (ast.In, ast.NotIn)) and ast.unparse(rn) == "self._data" and self.spec.get("selfdict"):
                t = "(dict_mem_str self %s)" % l
                terms.append(t if isinstance(op, ast.In) else "(negb %s)" % t)
            elif isinstance(op, (ast.In, ast.NotIn)):
                if isinstance(ln, ast.Constant) and isinstance(ln.value, str) and ln.value.isidentifier():
                    t = "(ann_has_%s %s)" % (ln.value, r)
                else:
                    t = "(py_in_str %s %s)" % (l, r)
                terms.append(t if isinstance(op, ast.In) else "(negb %s)" % t)
            else:
                sym = {ast.Lt: "<?", ast.LtE: "<=?", ast.Gt: ">?", ast.GtE: ">=?"}.get(type(op))
                if sym is None:
                    raise Unsupported("comparison")
                terms.append("(%s %s %s)" % (l, sym, r))
        return bs, terms[0] if len(terms) == 1 else "(" + " && ".join(terms) + ")"

    def none_test(self, test):
        """(name, positive) when test is `X is not None` (positive) / `X is None`"""
        if isinstance(test, ast.Compare) and len(test.ops) == 1 and isinstance(test.left, ast.Name) \
                and isinstance(test.comparators[0], ast.Constant) and test.comparators[0].value is None:
            if isinstance(test.ops[0], ast.IsNot):
                return test.left.id, True
            if isinstance(test.ops[0], ast.Is):
                return test.left.id, False
        return None

    def boolop(self, e):
        """short-circuit evaluation; `X is not None and ...` unwraps X on the right"""
        is_and = isinstance(e.op, ast.And)
        vals = list(e.values)
        if not is_and and len(vals) == 2 and isinstance(vals[0], ast.Name) and vals[0].id in self.optvars:
            # `x or default` on a value that is None or an object (objects are true)
            x = cname(vals[0].id)
            rb, ra = self.expr(vals[1])
            t = self.fresh()
            comp = "(match %s with Some v_ => Ok v_ | None => %sOk %s end)" % (x, self.bind_text(rb), ra)
            return [("bind", t, comp)], t

        def go(i):
            v = vals[i]
            if i == len(vals) - 1:
                b, a = self.expr(v)
                return b, a
            nt = self.none_test(v)
            rb, ra = go(i + 1)
            if nt and is_and and nt[1]:
                x = cname(nt[0])
                t = self.fresh()
                comp = "(match %s with Some %s => %sOk %s | None => Ok false end)" % (x, x, self.bind_text(rb), ra)
                return [("bind", t, comp)], t
            b, a = self.expr(v)
            if not rb:
                return b, "(%s %s %s)" % (a, "&&" if is_and else "||", ra)
            t = self.fresh()
            if is_and:
                comp = "(if %s then %sOk %s else Ok false)" % (a, self.bind_text(rb), ra)
            else:
                comp = "(if %s then Ok true else %sOk %s)" % (a, self.bind_text(rb), ra)
            return b + [("bind", t, comp)], t
        return go(0)

    def dictcomp(self, e):
        # {k: f(v) for k, v in six.iteritems(X)}: keys unchanged, values mapped
        g = e.generators[0]
        if len(e.generators) != 1 or g.ifs or not isinstance(g.target, ast.Tuple) or len(g.target.elts) != 2:
            raise Unsupported("dict comprehension")
        k, v = g.target.elts
        if not (isinstance(e.key, ast.Name) and isinstance(k, ast.Name) and e.key.id == k.id
                and isinstance(g.iter, ast.Call) and ast.unparse(g.iter.func) == "six.iteritems"):
            raise Unsupported("dict comprehension shape")
        bx, ax = self.expr(g.iter.args[0])
        bv, av = self.expr(e.value)
        t = self.fresh()
        comp = "py_mapM (fun %s => %sOk %s) %s" % (cname(v.id), self.bind_text(bv), av, ax)
        return bx + [("bind", t, comp)], t

    # -- statements ------------------------------------------------------
    def assigned(self, stmts, defined):
        """names (re)assigned by the block that are defined after it, in order"""
        out = []
        cur = set(defined)

        def add(n):
            if n not in out:
                out.append(n)
            cur.add(n)
        for s in stmts:
            if isinstance(s, ast.Assign):
                for t in s.targets:
                    if isinstance(t, ast.Name):
                        add(t.id)
                    elif isinstance(t, ast.Tuple):
                        for x in t.elts:
                            if not isinstance(x, ast.Name):
                                raise Unsupported("assignment target")
                            add(x.id)
                    elif isinstance(t, ast.Subscript) and isinstance(t.value, ast.Name):
                        add(t.value.id)
                    elif isinstance(t, ast.Attribute) and isinstance(t.value, ast.Name) \
                            and (t.value.id, t.attr) in self.spec.get("setattrs", {}):
                        add(t.value.id)
                    elif isinstance(t, ast.Attribute) and isinstance(t.value, ast.Name) and t.value.id == "self":
                        add("self_" + t.attr)
                    elif isinstance(t, ast.Attribute) and isinstance(t.value, ast.Name) and t.value.id == "cls" \
                            and self.spec.get("clsstate"):
                        add("st")
                    else:
                        raise Unsupported("assignment target %s" % ast.unparse(t))
                m = self.mutating_call(s.value)
                if m:
                    add(m)
            elif isinstance(s, ast.AugAssign):
                if not isinstance(s.target, ast.Name):
                    raise Unsupported("augmented assignment target")
                add(s.target.id)
            elif isinstance(s, ast.Expr):
                m = self.mutating_call(s.value)
                if m:
                    add(m)
                v = s.value
                if isinstance(v, (ast.Yield, ast.YieldFrom)):
                    add("yield_acc")
                if (isinstance(v, ast.Call) and isinstance(v.func, ast.Attribute) and v.func.attr == "append"
                        and isinstance(v.func.value, ast.Attribute) and isinstance(v.func.value.value, ast.Name)):
                    add(v.func.value.value.id)
                if isinstance(s.value, ast.Call) and ast.unparse(s.value.func) == "warnings.warn":
                    add("warnings_acc")
                if isinstance(s.value, ast.Call) and self.call_entry(s.value).get("returns_self"):
                    add("self")
                if isinstance(s.value, ast.Call) and ast.unparse(s.value.func) == "self._data.setdefault":
                    add("self")
            elif isinstance(s, (ast.For, ast.While)):
                inner = self.assigned(s.body, cur)
                for n in inner:
                    if n in cur:
                        add(n)
            elif isinstance(s, ast.If):
                a1 = self.assigned(s.body, cur)
                a2 = self.assigned(s.orelse, cur)
                t1, t2 = self.terminates(s.body), self.terminates(s.orelse)
                for n in a1 + [x for x in a2 if x not in a1]:
                    if n in cur or ((n in a1 or t1) and (n in a2 or t2)):
                        add(n)
            elif isinstance(s, ast.Try):
                for n in self.assigned(s.body, cur):
                    add(n)
            elif isinstance(s, ast.With):
                for item in s.items:
                    if isinstance(item.optional_vars, ast.Name):
                        add(item.optional_vars.id)
                for n in self.assigned(s.body, cur):
                    add(n)
        return out

    def mutating_call(self, v):
        """name of the local a call mutates (list.append, dict.setdefault, dict.pop)"""
        if isinstance(v, ast.Call) and isinstance(v.func, ast.Attribute) and isinstance(v.func.value, ast.Name) \
                and v.func.attr in ("append", "setdefault", "pop"):
            return v.func.value.id
        return None

    def terminates(self, stmts):
        if not stmts:
            return False
        s = stmts[-1]
        if isinstance(s, (ast.Return, ast.Raise)):
            return True
        if isinstance(s, ast.Expr) and isinstance(s.value, ast.Call) and ast.unparse(s.value.func) == "six.raise_from":
            return True
        if isinstance(s, ast.If):
            return self.terminates(s.body) and self.terminates(s.orelse)
        if isinstance(s, ast.With):
            return self.terminates(s.body)
        return False

    def raise_term(self, exc):
        if isinstance(exc, ast.Call) and ast.unparse(exc.func) == "six.raise_from":
            exc = exc.args[0]
        if not isinstance(exc, ast.Call):
            raise Unsupported("raise %s" % ast.unparse(exc))
        nm = ast.unparse(exc.func)
        if nm not in EXCEPTIONS:
            raise Unsupported("exception %s" % nm)
        con, argfns = EXCEPTIONS[nm]
        bs, atoms = [], []
        for fn, x in zip(argfns, exc.args):
            b, a = self.expr(x)
            bs += b
            atoms.append("(%s %s)" % (fn, a) if fn else a)
        # remaining arguments (messages) are evaluated for effects only
        for x in list(exc.args[len(argfns):]) + [k.value for k in exc.keywords]:
            b, _ = self.expr(x)
            bs += b
        term = con if not atoms else "(%s %s)" % (con, " ".join(atoms))
        return bs, term

    def cond(self, test, then_text, else_text):
        """`if test: A else: B` with unwrapping of `X is (not) None`"""
        key = ast.unparse(test)
        if key in self.assume:
            return then_text if self.assume[key] else else_text
        if key in self.spec.get("tests", {}):
            # a test on the class hierarchy, written out for the classes at hand by the configuration
            return "if %s then\n%s\nelse\n%s" % (self.spec["tests"][key], then_text, else_text)
        nt = self.none_test(test)
        if nt:
            x = cname(nt[0])
            some_t, none_t = (then_text, else_text) if nt[1] else (else_text, then_text)
            return "match %s with\n| Some %s =>\n%s\n| None =>\n%s\nend" % (x, x, some_t, none_t)
        if isinstance(test, ast.BoolOp) and isinstance(test.op, ast.And):
            nt0 = self.none_test(test.values[0])
            if nt0 and nt0[1]:
                x = cname(nt0[0])
                rest_t = test.values[1] if len(test.values) == 2 else ast.BoolOp(op=ast.And(), values=test.values[1:])
                inner = self.cond(rest_t, then_text, else_text)
                return "match %s with\n| Some %s =>\n%s\n| None =>\n%s\nend" % (x, x, inner, else_text)
        if isinstance(test, ast.Name) and test.id in self.dictvars:
            return "if dict_nonempty %s then\n%s\nelse\n%s" % (cname(test.id), then_text, else_text)
        b, a = self.expr(test)
        return "%sif %s then\n%s\nelse\n%s" % (self.bind_text(b), a, then_text, else_text)

    def ret(self, atom, is_none=False):
        if self.ret_opt and not is_none:
            atom = "(Some %s)" % atom
        if self.warns:
            atom = "(%s, warnings_acc)" % atom
        if self.spec.get("clsstate"):
            atom = "(%s, st)" % atom
        return atom

    def block(self, stmts, defined, fall, retwrap):
        """Coq text (type exc _) for the statements; `fall(defined)` gives the text at
        the end of the block, `retwrap(atom)` the text of a `return`"""
        if not stmts:
            return fall(defined)
        s, rest = stmts[0], stmts[1:]
        defined = set(defined)

        def cont(d):
            return self.block(rest, d, fall, retwrap)

        if isinstance(s, ast.Expr) and isinstance(s.value, ast.Constant) and isinstance(s.value.value, str):
            return cont(defined)
        if isinstance(s, ast.Pass):
            return cont(defined)
        if isinstance(s, ast.Return) and self.spec.get("generator"):
            if s.value is not None:
                raise Unsupported("return with a value in a generator")
            return retwrap("yield_acc")
        if isinstance(s, ast.Return):
            if s.value is None:
                return retwrap(self.ret("tt"))
            b, a = self.expr(s.value)
            isn = isinstance(s.value, ast.Constant) and s.value.value is None
            return self.bind_text(b) + retwrap(self.ret(a, isn))
        if isinstance(s, ast.Raise):
            b, t = self.raise_term(s.exc)
            return self.bind_text(b) + "Err %s" % t
        if isinstance(s, ast.AugAssign):
            b, a = self.binop(s.target, s.op, s.value)
            return self.bind_text(b) + "let %s := %s in\n" % (cname(s.target.id), a) + cont(defined | {s.target.id})
        if isinstance(s, ast.Assign):
            return self.assign(s, defined, cont)
        if isinstance(s, ast.Expr):
            return self.exprstmt(s, defined, cont)
        if isinstance(s, ast.If):
            return self.ifstmt(s, rest, defined, fall, retwrap)
        if isinstance(s, ast.For):
            return self.forstmt(s, defined, cont, retwrap)
        if isinstance(s, ast.While):
            return self.whilestmt(s, defined, cont)
        if isinstance(s, ast.Try):
            return self.trystmt(s, defined, cont, retwrap)
        if isinstance(s, ast.With):
            # `with <resource> as x:` — x is bound to what the (configured) call returns; leaving the block
            # releases the resource, which the model does not represent; names bound inside stay visible
            text, d = "", set(defined)
            for item in s.items:
                b, a = self.expr(item.context_expr)
                text += self.bind_text(b)
                if item.optional_vars is not None:
                    if not isinstance(item.optional_vars, ast.Name):
                        raise Unsupported("with target")
                    text += "let %s := %s in\n" % (cname(item.optional_vars.id), a)
                    d.add(item.optional_vars.id)
            return text + self.block(list(s.body) + list(rest), d, fall, retwrap)
        raise Unsupported("statement %s" % type(s).__name__)

    def assign(self, s, defined, cont):
        if len(s.targets) != 1:
            raise Unsupported("chained assignment")
        t = s.targets[0]
        v = s.value
        # m = d.setdefault(k, v)  /  x = d.pop(k)
        mc = self.mutating_call(v)
        if mc and isinstance(t, ast.Name):
            d = cname(mc)
            b, atoms = self.args_of(v)
            if v.func.attr == "setdefault" and mc in self.dictvars:
                line = "let '(%s, %s) := dict_setdefault %s %s %s in\n" % (
                    cname(t.id), d, self.dictvars[mc], d, " ".join(atoms))
            elif v.func.attr == "pop" and mc in self.dictvars:
                line = "'(%s, %s) <- dict_pop %s %s %s ;;\n" % (cname(t.id), d, self.dictvars[mc], d, " ".join(atoms))
            else:
                raise Unsupported("mutating call %s" % ast.unparse(v))
            return self.bind_text(b) + line + cont(defined | {t.id})
        b, a = self.expr(v)
        if isinstance(t, ast.Name):
            if t.id in self.optvars and not (isinstance(v, ast.Constant) and v.value is None):
                a = "(Some %s)" % a
            return self.bind_text(b) + "let %s := %s in\n" % (cname(t.id), a) + cont(defined | {t.id})
        if isinstance(t, ast.Tuple):
            names = [x.id for x in t.elts]
            pat = "'(" + ", ".join(cname(n) for n in names) + ")"
            return self.bind_text(b) + "let %s := %s in\n" % (pat, a) + cont(defined | set(names))
        if isinstance(t, ast.Subscript) and isinstance(t.value, ast.Name) and t.value.id in self.dictvars:
            bk, ak = self.expr(t.slice)
            x = cname(t.value.id)
            return self.bind_text(b) + self.bind_text(bk) + "let %s := dict_set %s %s %s %s in\n" % (
                x, self.dictvars[t.value.id], x, ak, a) + cont(defined)
        if isinstance(t, ast.Attribute) and isinstance(t.value, ast.Name) \
                and (t.value.id, t.attr) in self.spec.get("setattrs", {}):
            x = cname(t.value.id)
            return self.bind_text(b) + "let %s := %s %s %s in\n" % (x, self.spec["setattrs"][(t.value.id, t.attr)], x, a) \
                + cont(defined)
        if isinstance(t, ast.Subscript) and isinstance(t.value, ast.Name) and isinstance(t.slice, ast.Constant) \
                and isinstance(t.slice.value, str) and t.slice.value.isidentifier():
            x = cname(t.value.id)
            return self.bind_text(b) + "let %s := ann_set_%s %s %s in\n" % (x, t.slice.value, x, a) + cont(defined)
        if isinstance(t, ast.Attribute) and isinstance(t.value, ast.Name) and t.value.id == "cls" \
                and self.spec.get("clsstate"):
            return self.bind_text(b) + 'let st := ns_set st cls "%s"%%string %s in\n' % (t.attr, a) + cont(defined | {"st"})
        if isinstance(t, ast.Attribute) and isinstance(t.value, ast.Name) and t.value.id == "self" \
                and self.spec.get("init"):
            return self.bind_text(b) + "let self_%s := %s in\n" % (t.attr, a) + cont(defined | {"self_" + t.attr})
        raise Unsupported("assignment to %s" % ast.unparse(t))

    def exprstmt(self, s, defined, cont):
        v = s.value
        if isinstance(v, ast.Yield) and self.spec.get("generator") and v.value is not None:
            b, a = self.expr(v.value)
            return self.bind_text(b) + "let yield_acc := yield_acc ++ [%s] in\n" % a + cont(defined)
        if isinstance(v, ast.YieldFrom) and self.spec.get("generator"):
            b, a = self.expr(v.value)
            return self.bind_text(b) + "let yield_acc := yield_acc ++ %s in\n" % a + cont(defined)
        if isinstance(v, ast.Call) and ast.unparse(v.func) == "six.raise_from":
            b, t = self.raise_term(v)
            return self.bind_text(b) + "Err %s" % t
        if isinstance(v, ast.Call) and ast.unparse(v.func) == "warnings.warn":
            w = v.args[0]
            if ast.unparse(w.func) == "errors.UnusedModules" and len(w.args) == 1 and isinstance(w.args[0], ast.Starred):
                b, a = self.expr(w.args[0].value)
                return self.bind_text(b) + "let warnings_acc := warnings_acc ++ [WUnusedModules (map ent_id %s)] in\n" % a \
                    + cont(defined)
            raise Unsupported("warning %s" % ast.unparse(w))
        mc = self.mutating_call(v)
        if mc and v.func.attr == "append":
            b, atoms = self.args_of(v)
            x = cname(mc)
            return self.bind_text(b) + "let %s := %s ++ [%s] in\n" % (x, x, atoms[0]) + cont(defined)
        if (isinstance(v, ast.Call) and isinstance(v.func, ast.Attribute) and v.func.attr == "append"
                and isinstance(v.func.value, ast.Attribute) and isinstance(v.func.value.value, ast.Name)
                and v.func.value.attr == "features"):
            b, atoms = self.args_of(v)
            x = cname(v.func.value.value.id)
            return self.bind_text(b) + "let %s := rec_append_feature %s %s in\n" % (x, x, atoms[0]) + cont(defined)
        if (isinstance(v, ast.Call) and isinstance(v.func, ast.Attribute) and v.func.attr == "setdefault"
                and ast.unparse(v.func.value) == "self._data" and self.spec.get("selfdict")):
            b, atoms = self.args_of(v)
            return self.bind_text(b) + "let self := snd (dict_setdefault %s self %s) in\n" % (
                self.spec["selfdict"], " ".join(atoms)) + cont(defined)
        if isinstance(v, ast.Call):
            b, a = self.expr(v)
            if self.call_entry(v).get("returns_self"):
                # a call that (re)initialises or updates `self`: its value is the object from here on
                return self.bind_text(b) + "let self := %s in\n" % a + cont(defined | {"self"})
            return self.bind_text(b) + cont(defined)
        raise Unsupported("expression statement %s" % ast.unparse(v)[:60])

    def ifstmt(self, s, rest, defined, fall, retwrap):
        key = ast.unparse(s.test)
        if key in self.assume:
            # specialisation: only the live branch is translated
            live = s.body if self.assume[key] else s.orelse
            return self.block(list(live) + list(rest), defined, fall, retwrap)
        t1, t2 = self.terminates(s.body), self.terminates(s.orelse)
        joinable = (not contains_return(s.body) and not contains_return(s.orelse) and rest and not (t1 and t2)
                    and not (self.none_test(s.test) and (t1 or t2)))
        if joinable:
            names = self.assigned([s], defined)
            tup = self.tuple_of(names)

            def jfall(_d):
                return "Ok %s" % tup
            a = self.block(s.body, defined, jfall, retwrap)
            b = self.block(s.orelse, defined, jfall, retwrap)
            body = self.cond(s.test, a, b)
            nd = defined | set(names)
            return "%s <- (%s) ;;\n" % (self.pat_of(names), body) + self.block(rest, nd, fall, retwrap)
        # continuation duplicated into the branches that fall through

        def dfall(d):
            return self.block(rest, d, fall, retwrap)
        a = self.block(s.body, defined, dfall, retwrap)
        b = self.block(s.orelse, defined, dfall, retwrap)
        return self.cond(s.test, a, b)

    def iter_of(self, it):
        if isinstance(it, ast.Name) and it.id in self.dictvars:
            return [], "(dict_keys %s)" % cname(it.id)
        return self.expr(it)

    def forstmt(self, s, defined, cont, retwrap):
        if s.orelse:
            raise Unsupported("for/else")
        carried = [n for n in self.assigned(s.body, defined) if n in defined]
        b, it = self.iter_of(s.iter)
        if isinstance(s.target, ast.Name):
            tgt = cname(s.target.id)
            tnames = {s.target.id}
        elif isinstance(s.target, ast.Tuple):
            tgt = "'(" + ", ".join(cname(x.id) for x in s.target.elts) + ")"
            tnames = {x.id for x in s.target.elts}
        else:
            raise Unsupported("for target")
        tup, pat = self.tuple_of(carried), self.pat_of(carried)
        if pat == "_":
            pat = "(_ : unit)"
        inner = defined | tnames
        if contains_return(s.body):
            body = self.block(s.body, inner, lambda d: "Ok (Next %s)" % tup, lambda a: "Ok (Ret %s)" % a)
            r = self.fresh()
            return (self.bind_text(b)
                    + "%s <- py_for %s %s (fun %s %s =>\n%s) ;;\n" % (r, it, tup, tgt, pat, body)
                    + "match %s with\n| Ret v_ => %s\n| Next %s =>\n%s\nend" % (
                        r, retwrap("v_"), pat if pat != "(_ : unit)" else "_", cont(defined)))
        body = self.block(s.body, inner, lambda d: "Ok %s" % tup, retwrap)
        return (self.bind_text(b)
                + "%s <- py_for0 %s %s (fun %s %s =>\n%s) ;;\n" % (
                    pat if pat != "(_ : unit)" else "_", it, tup, tgt, pat, body)
                + cont(defined))

    def whilestmt(self, s, defined, cont):
        if s.orelse or contains_return(s.body):
            raise Unsupported("while with else/return")
        carried = [n for n in self.assigned(s.body, defined) if n in defined]
        tup, pat = self.tuple_of(carried), self.pat_of(carried)
        bc, ac = self.expr(s.test)
        body = self.block(s.body, defined, lambda d: "Ok %s" % tup, lambda a: "Ok %s" % a)
        return ("%s <- py_while0 fuel %s (fun %s => %sOk %s) (fun %s =>\n%s) ;;\n" % (
            pat, tup, pat, self.bind_text(bc), ac, pat, body) + cont(defined))

    def handlers(self, s, defined, fall, retwrap):
        arms = []
        bases = self.tr.exc_bases
        for h in s.handlers:
            tn = ast.unparse(h.type).split(".")[-1]
            cons = [con for cls, con in EXC_CLASS.items() if cls == tn or tn in bases.get(cls, ())]
            if not cons:
                raise Unsupported("except %s" % tn)
            if h.name:
                if cons != ["XKeyError"]:
                    raise Unsupported("except ... as name for %s" % tn)
                self.excvars.add(h.name)
            hb = self.block(h.body, defined, fall, retwrap)
            for con in sorted(set(cons)):
                ar = EXC_ARITY.get(con, 0)
                if h.name:
                    args = cname(h.name)
                else:
                    args = " ".join(["_"] * ar)
                arms.append("| %s %s =>\n%s" % (con, args, hb))
        return "(fun exn_ => match exn_ with\n%s\n| _ => Err exn_ end)" % "\n".join(arms)

    def trystmt(self, s, defined, cont, retwrap):
        if s.orelse or s.finalbody:
            raise Unsupported("try with else/finally")
        if self.terminates(s.body):
            # the body always returns or raises: what follows the statement is reached
            # from a handler only
            body = self.block(s.body, defined, lambda d: "Err XRuntimeError", retwrap)
            handler = self.handlers(s, defined, cont, retwrap)
            return "py_try (\n%s)\n%s" % (body, handler)
        if contains_return(s.body):
            raise Unsupported("try whose body may return or fall through")
        names = self.assigned(s.body, defined)
        tup, pat = self.tuple_of(names), self.pat_of(names)
        body = self.block(s.body, defined, lambda d: "Ok %s" % tup, retwrap)
        handler = self.handlers(s, defined, lambda d: "Ok %s" % tup, retwrap)
        return "%s <- py_try (\n%s)\n%s ;;\n" % (pat, body, handler) + cont(defined | set(names))

    # -- the function ----------------------------------------------------
    def translate(self):
        f = self.fdef
        params = [a.arg for a in f.args.args]
        if f.args.vararg or f.args.kwarg or f.args.kwonlyargs:
            raise Unsupported("varargs")
        defined = set(params)
        if self.spec.get("clsstate"):
            defined.add("st")
        pre = ""
        if self.warns:
            pre = "let warnings_acc := [] in\n"
            defined.add("warnings_acc")
        if self.spec.get("generator"):
            pre += "let yield_acc := [] in\n"
            defined.add("yield_acc")
        if self.spec.get("generator"):
            def fall(d):
                return "Ok yield_acc"
        elif self.spec.get("init"):
            fields = self.spec["init"]

            def fall(d):
                return "Ok (%s %s)" % (self.spec["ctor"], " ".join("self_" + x for x in fields))
        else:
            def fall(d):
                if self.spec.get("ret_self"):
                    return "Ok self"
                if self.spec.get("ret") == "unit":
                    return "Ok tt"
                raise Unsupported("control can reach the end of %s without a return" % f.name)
        body = pre + self.block(f.body, defined, fall, lambda a: "Ok %s" % a)
        if self.spec.get("fuel_wrap"):
            body = "match fuel with\n| O => Err XOutOfFuel\n| S fuel =>\n%s\nend" % body
        return body


def binder(sp):
    out = ["(fuel : nat)"] if sp.get("fuel") else []
    for n, t in list(sp["sig"]) + list(sp.get("extra_sig", ())):
        out.append("(%s : %s)" % (cname(n), t))
    return " ".join(out)


class Translator(object):
    def __init__(self, root):
        self.root = root
        self.generated = {}     # coq name -> dict(params, defaults, fuel)
        self.exc_bases = exception_bases(root)
        self.trees = {}
        self.notes = []

    def find(self, path, cls, name):
        if path not in self.trees:
            self.trees[path] = ast.parse(open(os.path.join(self.root, path)).read())
        tree = self.trees[path]
        body = tree.body
        if cls:
            for n in body:
                if isinstance(n, ast.ClassDef) and n.name == cls:
                    body = n.body
                    break
            else:
                raise Unsupported("class %s not found in %s" % (cls, path))
        for n in body:
            if isinstance(n, ast.FunctionDef) and n.name == name:
                return n
        raise Unsupported("%s.%s not found in %s" % (cls, name, path))

    def emit_refused(self, spec):
        """a method replaced by its decorator: @_ambiguous, whose inner function only raises TypeError"""
        fdef = self.find(spec["file"], spec.get("class"), spec["method"])
        decos = [ast.unparse(d) for d in fdef.decorator_list]
        if decos != [spec["decorator"]]:
            raise Unsupported("%s.%s is decorated with %s, expected @%s" % (spec.get("class"), spec["method"], decos, spec["decorator"]))
        deco = self.find(spec["file"], None, spec["decorator"])
        inner = [n for n in deco.body if isinstance(n, ast.FunctionDef)]
        rets = [n for n in deco.body if isinstance(n, ast.Return)]
        if len(inner) != 1 or len(rets) != 1 or ast.unparse(rets[0].value) != inner[0].name:
            raise Unsupported("decorator %s does not return its inner function" % spec["decorator"])
        body = [n for n in inner[0].body if not (isinstance(n, ast.Expr) and isinstance(n.value, ast.Constant))]
        if len(body) != 1 or not isinstance(body[0], ast.Raise) or not isinstance(body[0].exc, ast.Call) \
                or ast.unparse(body[0].exc.func) not in EXCEPTIONS:
            raise Unsupported("the wrapper of %s does something else than raising" % spec["decorator"])
        con = EXCEPTIONS[ast.unparse(body[0].exc.func)][0]
        return "(* %s: %s.%s, replaced by @%s *)\nDefinition %s %s : exc (%s) :=\nErr %s.\n" % (
            spec["file"], spec.get("class"), spec["method"], spec["decorator"], spec["name"], binder(spec),
            spec["rettype"], con)

    def emit(self, spec):
        """-> Coq text of one definition (or of a group of mutually recursive ones)"""
        if spec.get("decorator"):
            return self.emit_refused(spec)
        group = spec.get("group")
        specs = group if group else [spec]
        texts = []
        for sp in specs:
            fdef = self.find(sp["file"], sp.get("class"), sp["method"])
            params = [a.arg for a in fdef.args.args]
            nd = len(fdef.args.defaults)
            defaults = dict(zip(params[len(params) - nd:], fdef.args.defaults)) if nd else {}
            # registered before translation so that recursive calls resolve
            self.generated[sp["name"]] = dict(
                params=params[1:] if params and params[0] in ("self", "cls") else params,
                defaults=defaults, fuel=bool(sp.get("fuel")))
        for sp in specs:
            fdef = self.find(sp["file"], sp.get("class"), sp["method"])
            expected = [n for n, _ in sp["sig"]]
            got = [a.arg for a in fdef.args.args]
            if got != expected:
                raise Unsupported("%s: parameters %s, expected %s" % (sp["name"], got, expected))
            body = Fn(self, sp, fdef).translate()
            texts.append((sp, body))
        out = []
        for i, (sp, body) in enumerate(texts):
            kw = "Definition" if not group else ("Fixpoint" if i == 0 else "with")
            struct = " {struct fuel}" if group else ""
            end = "." if (not group or i == len(texts) - 1) else ""
            out.append("(* %s: %s%s *)\n%s %s %s%s : exc (%s) :=\n%s%s\n" % (
                sp["file"], (sp.get("class") + "." if sp.get("class") else ""), sp["method"],
                kw, sp["name"], binder(sp), struct, sp["rettype"], body, end))
        return "\n".join(out)
