# coding: utf-8
"""Annotated assemblies: generator of chains whose records carry feature tables,
reference lists and citation qualifiers (driver side), construction of the
entities, snapshots and fault injection (worker side)."""
from . import gens

FTYPES = ["misc_feature", "CDS", "gene", "promoter", "terminator", "rep_origin"]

# ------------------------------------------------------------ driver side


def regions(enz, elem, kind):
    """(retained fragment, the rest) as half-open intervals of the canonical layout"""
    s, off, ovh = len(enz["site"]), enz["off"], enz["ovh"]
    n = len(elem["seq"])
    if kind == "module":
        a = s + off
        b = a + ovh + len(elem["t"])
        return (a, b), n
    plen = n - (ovh + off + s) - (s + off + ovh) - len(elem["body"])
    a = ovh + off + s + plen + s + off
    return (a, n), n


def gen_cited_features(rng, enz, elem, kind, refs, labels, nfeat):
    """simple features inside the retained fragment, outside it, or across its boundary"""
    (a, b), n = regions(enz, elem, kind)
    feats = []
    for _ in range(nfeat):
        where = rng.choice(["inside", "inside", "inside", "outside", "across"])
        if where == "inside" and b - a >= 1:
            x = rng.randrange(a, b)
            y = rng.randrange(x + 1, b + 1)
        elif where == "across" and a >= 1 and b - a >= 1:
            x = rng.randrange(0, a)
            y = rng.randrange(a + 1, b + 1)
        else:
            where = "outside"
            if a >= 1:
                x = rng.randrange(0, a)
                y = rng.randrange(x + 1, a + 1)
            elif b < n:
                x = rng.randrange(b, n)
                y = rng.randrange(x + 1, n + 1)
            else:
                continue
        cit = []
        if refs:
            for _ in range(rng.choice([0, 1, 1, 2, 3])):
                cit.append("[%d]" % rng.randrange(1, len(refs) + 1))
        f = {"type": rng.choice(FTYPES), "q": labels[0], "parts": [[x, y, rng.choice([1, -1, 0])]],
             "kept": where == "inside"}
        if cit or rng.random() < 0.1:
            f["cit"] = cit
        labels[0] += 1
        feats.append(f)
    return feats


def gen_cited_chain(ctx, enz, q, pool=6, with_refs=True):
    rng = ctx.rng
    ch = gens.gen_chain(rng, enz, q, tmin=3, tmax=10, bmax=8)
    if ch is None:
        return None
    labels = [0]
    out = {"enz": enz["name"], "elements": []}
    for kind, elem in [("module", m) for m in ch["modules"]] + [("vector", ch["vector"])]:
        refs = None
        if with_refs and rng.random() < 0.85:
            k = rng.choice([0, 1, 2, 3, 4])
            refs = [rng.randrange(1, pool + 1) for _ in range(k)]
            if rng.random() < 0.85:           # mostly without repeats inside one list
                refs = sorted(set(refs), key=refs.index)
        feats = gen_cited_features(rng, enz, elem, kind, refs or [], labels, rng.randrange(0, 5))
        rec = {"seq": elem["seq"], "id": "%s%d" % (kind[0], len(out["elements"])), "name": "n%d" % len(out["elements"]),
               "desc": "d", "features": feats, "refs": refs}
        out["elements"].append({"kind": kind, "cls": gens.generic_spec(kind, enz), "rec": rec,
                                "rot": gens.pick_origin(rng, elem) if rng.random() < 0.8 else 0,
                                "up": elem["up"], "down": elem["down"], "frag": elem["frag"]})
    out["expected"] = ch["expected"]
    return out


def cit_term(c):
    """citation entry (canonical) -> Coq"""
    return "(CIdx %d)" % c["idx"] if "idx" in c else "(CRef %d)" % c["ref"]


def store_term(store):
    """[{"refs": [...], "feats": [{"kept": bool, "cits": [canonical]}]}] -> list crec"""
    recs = []
    for r in store:
        fs = "; ".join("(CF %s [%s])" % ("true" if f.get("kept", True) else "false",
                                         "; ".join(cit_term(c) for c in f["cits"])) for f in r["feats"])
        recs.append("(CR [%s] [%s])" % ("; ".join("%d" % x for x in r["refs"]), fs))
    return "[" + "; ".join(recs) + "]"


def parse_cit(c):
    """canonical form of one citation qualifier entry as dumped by the worker"""
    import re
    if isinstance(c, dict):
        return {"ref": c["ref"]}
    m = re.match(r"^\[(\d+)\]$", c)
    if m:
        return {"idx": int(m.group(1))}
    return {"bad": c}


def model_store(elements, order=None):
    """the model's store of the inputs as generated (before any call)"""
    st = []
    for i in (order if order is not None else range(len(elements))):
        e = elements[i]
        st.append({"refs": list(e["rec"]["refs"] or []),
                   "feats": [{"kept": f.get("kept", True), "cits": [parse_cit(c) for c in f.get("cit", [])]}
                             for f in e["rec"]["features"]]})
    return st


# ------------------------------------------------------------ worker side

def prerotate(spec, k, rng):
    """the record description read from another origin (what `>> k` should give), computed here: every part moves by k;
    a part that now runs past the end is written either as a join over the origin or in the extended form"""
    n = len(spec["seq"])
    k %= n
    if not k:
        return spec
    out = dict(spec, seq=spec["seq"][-k:] + spec["seq"][:-k], features=[])
    for f in spec["features"]:
        parts = []
        for a, b, st in f["parts"]:
            whole = (b - a == n)
            a2, b2 = a + k, b + k
            if a2 >= n:
                a2, b2 = a2 - n, b2 - n
            if whole:
                parts.append([0, n, st])
            elif b2 > n and rng.random() < 0.7:
                two = [[a2, n, st], [0, b2 - n, st]]
                parts.extend(reversed(two) if st == -1 else two)
            else:
                parts.append([a2, b2, st])
        out["features"].append(dict(f, parts=parts))
    if spec.get("tracks"):
        out["tracks"] = [t[-k:] + t[:-k] for t in spec["tracks"]]
    return out


def build(elements):
    """entities over shared record objects"""
    from harness import implutil, recutil
    ents = []
    for e in elements:
        rec = recutil.mk_record(e["rec"])
        if e.get("rot") and not e.get("prerot"):
            rec = rec >> e["rot"]
        ents.append(implutil.get_class(e["cls"])(rec))
    return ents


def cit_snapshot(ents):
    """per record: reference ids and, per feature, the citation entries as they are now"""
    from harness import recutil
    out = []
    for ent in ents:
        rec = ent.record
        refs = [recutil.ref_id(r) for r in rec.annotations.get("references", [])]
        feats = []
        for f in rec.features:
            cits = []
            for c in f.qualifiers.get("citation", []):
                cits.append(c if isinstance(c, str) else {"ref": recutil.ref_id(c)})
            feats.append({"cits": cits})
        out.append({"refs": refs, "feats": feats})
    return out


def full_snapshot(ents):
    from harness import recutil
    snaps = []
    for ent in ents:
        s = recutil.deep_snapshot(ent.record)
        s["ann"].setdefault("references", [])       # an absent reference list is equivalent to an empty one
        snaps.append(s)
    return snaps


class Injected(Exception):
    pass


def inject(ent, mid_store, ents):
    """make the entity's fragment extraction raise, recording the citation state at that point"""
    def boom(*a, **k):
        mid_store.append(cit_snapshot(ents))
        raise Injected("injected fault in target_sequence")
    ent.target_sequence = boom


def product_view(prod):
    """id, references and labelled features of a product"""
    from harness import recutil
    feats = []
    for f in prod.features:
        d = recutil.dump_feature(f)
        if f.type == "source" and "plasmid" in f.qualifiers:
            d["plasmid"] = f.qualifiers["plasmid"]
        feats.append(d)
    return {"seq": str(prod.seq), "id": prod.id, "name": prod.name,
            "refs": [recutil.ref_id(r) for r in prod.annotations.get("references", [])],
            "has_refs": "references" in prod.annotations,
            "features": feats, "comment": prod.annotations.get("comment"),
            "topology": prod.annotations.get("topology"), "cls": type(prod).__name__}
