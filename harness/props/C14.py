# coding: utf-8
"""C14 — reverse complement of a circular record stays circular and loses nothing."""
EXTRA_OBLIGATION_FILES = ("Props/C14_src.v",)

from harness import common, recutil
from harness.props import C13

LEVEL_NOTE = ("Theorems on rc/flip for all sequences, all coordinates (read modulo n), all rotations; the 'result is a "
              "CircularRecord' clause is an object-level fact decided by the correspondence/oracle; Biopython's "
              "SeqRecord.reverse_complement/_flip are modelled in coq/Record.v and tied by exact comparison of tables.")

IMPORTS = """From MV Require Import Base Record Glue.
From Coq Require Import String.
Open Scope Z_scope.
Inductive op := ORot (k : Z) | OLsh (k : Z) | ORc.
Definition apply_op (r : record) (o : op) : record :=
  match o with ORot k => rot_record k r | OLsh k => rotl_record k r | ORc => rc_record r end.
Definition check (c : record * list op * record) : bool :=
  let '(r, ops, obs) := c in record_eqb (fold_left apply_op ops r) obs.
"""


def gen_cases(ctx):
    rng = ctx.rng
    cases = []
    total = 500 if ctx.quick else 5000
    for i in range(total):
        n = rng.randrange(1, 13) if i % 2 == 0 else rng.randrange(1, 61)
        rec = C13.gen_record(rng, n, rng.randrange(0, 6), rng.choice([0, 1, 2]), distinct=rng.random() < 0.6)
        # drop the extra key used for statistics only
        ops = []
        for _ in range(rng.choice([1, 1, 2, 3, 4])):
            r = rng.random()
            if r < 0.5:
                ops.append(["rc", 0])
            elif r < 0.75:
                ops.append([">>", rng.randrange(-2 * n, 2 * n + 1)])
            else:
                ops.append(["<<", rng.randrange(-2 * n, 2 * n + 1)])
        if not any(o[0] == "rc" for o in ops):
            ops.append(["rc", 0])
        cases.append({"rec": rec, "ops": ops})
    return cases


# ------------------------------------------------------------ worker side

def _apply(rec, ops):
    for op, k in ops:
        if op == "rc":
            rec = rec.reverse_complement()
        elif op == ">>":
            rec = rec >> k
        else:
            rec = rec << k
    return rec


def impl_apply(case):
    rec = recutil.mk_record(case["rec"])
    try:
        out = _apply(rec, case["ops"])
    except Exception as e:  # noqa
        return {"exc": type(e).__name__ + ": " + str(e)}
    return recutil.dump_record(out)


_COMP = str.maketrans("ACGTRYSWKMBDHVNacgtryswkmbdhvn", "TGCAYRSWMKVHDBNtgcayrswmkvhdbn")


def _rc(s):
    return s.translate(_COMP)[::-1]


def _denote(seq, loc):
    n = len(seq)
    out = []
    for p in loc.parts:
        w = "".join(seq[x % n] for x in range(int(p.start), int(p.end)))
        out.append((_rc(w) if p.strand == -1 else w, p.strand))
    return out


def _table(rec):
    """multiset of (type, qualifiers, per-part (word read along own strand or covered word, strandedness))"""
    seq = str(rec.seq)
    rows = []
    for f in rec.features:
        rows.append((f.type, repr(sorted(f.qualifiers.items())), tuple(_denote(seq, f.location))))
    return sorted(rows, key=repr)


def oracle_rc(case):
    from moclo.record import CircularRecord
    rec = recutil.mk_record(case["rec"])
    # bring the record into the state reached by the ops before the last rc
    ops = case["ops"]
    last = max(i for i, o in enumerate(ops) if o[0] == "rc")
    try:
        r0 = _apply(rec, ops[:last])
        before = recutil.deep_snapshot(r0)
        r1 = r0.reverse_complement()
    except Exception as e:  # noqa
        return {"signature": "C14:exception", "what": "reverse_complement raised %s: %s" % (type(e).__name__, e)}
    if type(r1) is not CircularRecord:
        return {"signature": "C14:type", "what": "result is %s, not CircularRecord" % type(r1).__name__}
    s0, s1 = str(r0.seq), str(r1.seq)
    n = len(s0)
    if s1 != _rc(s0):
        return {"signature": "C14:sequence", "what": "sequence %s -> %s is not the reverse complement" % (s0, s1)}
    if len(r1.features) != len(r0.features):
        return {"signature": "C14:feature-count", "what": "features lost or invented"}
    # every feature denotes the reverse complement of what it denoted, on the opposite strand
    exp = []
    for f in r0.features:
        parts = []
        for w, st in _denote(s0, f.location):
            if st in (1, -1):
                parts.append((w, -st))          # same word read along its own, now opposite, strand
            else:
                parts.append((_rc(w), st))      # unstranded: covers the reverse complement
        if all(p.strand is None for p in f.location.parts) and len(parts) > 1:
            parts.reverse()
        exp.append((f.type, repr(sorted(f.qualifiers.items())), tuple(parts)))
    if sorted(exp, key=repr) != _table(r1):
        return {"signature": "C14:feature-denotation",
                "what": "features of the reverse complement do not denote the reverse complement on the opposite strand"}
    # twice
    r2 = r1.reverse_complement()
    if str(r2.seq) != s0 or _table(r2) != _table(r0):
        return {"signature": "C14:involution", "what": "applying reverse_complement twice does not give the record back"}
    # commutes with rotation
    for k in {1 % n, (n // 2) % n, (n - 1) % n}:
        a = (r0 >> k).reverse_complement()
        b = r0.reverse_complement() << k
        if str(a.seq) != str(b.seq):
            return {"signature": "C14:rc-rot-seq", "what": "rc(r >> %d) != rc(r) << %d on the sequence" % (k, k)}
        if _table(a) != _table(b):
            return {"signature": "C14:rc-rot-features", "what": "rc(r >> %d) and rc(r) << %d disagree on features" % (k, k)}
    for key, v in r0.letter_annotations.items():
        if list(r1.letter_annotations.get(key, [])) != list(v)[::-1]:
            return {"signature": "C14:letter-annotations", "what": "per-letter annotation %r not reversed" % key}
    if recutil.deep_snapshot(r0) != before:
        return {"signature": "C14:input-mutated", "what": "reverse_complement modified its operand"}
    # the statement is about the record as it is now: a record edited after an earlier call is a circular record too,
    # and editing an earlier result must not reach a later one
    from Bio.SeqFeature import SeqFeature, FeatureLocation
    r1.features[:] = []
    r1.letter_annotations = {}
    r1.seq = r1.seq[:0]
    a, b = sorted([n // 3, (2 * n) // 3 + 1])
    r0.features.append(SeqFeature(FeatureLocation(a, min(b, n), 1), type="added_later", qualifiers={"note": ["late"]}))
    r3 = r0.reverse_complement()
    if str(r3.seq) != _rc(s0):
        return {"signature": "C14:history:sequence", "what": "a second call after editing the first result returns sequence %s" % r3.seq}
    if _expected(r0, s0) != _table(r3):
        return {"signature": "C14:history:features",
                "what": "after appending a feature to the record (and clearing the first result), reverse_complement() "
                        "reports %d features where the record has %d" % (len(r3.features), len(r0.features))}
    if n > 1:
        from Bio.Seq import Seq
        s_new = s0[1:] + ("A" if s0[0] != "A" else "C")
        r0.letter_annotations = {}
        r0.seq = Seq(s_new)
        r4 = r0.reverse_complement()
        if str(r4.seq) != _rc(s_new):
            return {"signature": "C14:history:sequence-edit",
                    "what": "after assigning a new sequence %s, reverse_complement() returns %s" % (s_new, r4.seq)}
    return None


def _expected(r0, s0):
    exp = []
    for f in r0.features:
        parts = []
        for w, st in _denote(s0, f.location):
            if st in (1, -1):
                parts.append((w, -st))
            else:
                parts.append((_rc(w), st))
        if all(p.strand is None for p in f.location.parts) and len(parts) > 1:
            parts.reverse()
        exp.append((f.type, repr(sorted(f.qualifiers.items())), tuple(parts)))
    return sorted(exp, key=repr)


# ------------------------------------------------------------ driver side

def c_case(case, obs):
    ops = []
    for op, k in case["ops"]:
        ops.append("ORc" if op == "rc" else ("ORot (%d)" % k if op == ">>" else "OLsh (%d)" % k))
    return "(%s, [%s], %s)" % (recutil.c_record(case["rec"]), "; ".join(ops), recutil.c_record(obs))


def run(ctx):
    ctx.rule = ("random circular records (length 1..12 and 1..60, 0..5 features of every C13 shape, 0..2 tracks) under 1..4 "
                "composed operations from {reverse_complement, >> k, << k} (so locations produced by earlier rotations, "
                "extended past the end, are flipped too); non-trivial = the record has at least one feature; distinct by hash")
    cases = gen_cases(ctx)
    obs = common.run_impl(ctx, "C14", "impl_apply", cases)
    terms, idx = [], []
    for i, (c, o) in enumerate(zip(cases, obs)):
        ctx.evaluations += 1
        ctx.count("ops:%d" % len(c["ops"]))
        for f in c["rec"]["features"]:
            ctx.count("shape:" + f["shape"])
        if c["rec"]["features"]:
            ctx.nontriv(c)
        if "exc" in o:
            ctx.disagreements.append({"case": c, "impl": o, "observable": "record after operations"})
            continue
        terms.append(c_case(c, o))
        idx.append(i)
    ctx.sample({"case": cases[3], "impl": obs[3]})
    bad = common.coq_eval_cases(ctx, "rc", IMPORTS, terms, "check")
    suspects = []
    for b in bad:
        i = idx[b]
        ctx.disagreements.append({"case": cases[i], "impl": obs[i],
                                  "observable": "(seq, features in order, tracks) of Record.rc_record vs reverse_complement()"})
        suspects.append(cases[i])
    order = suspects + cases
    res = common.run_impl(ctx, "C14", "oracle_rc", order)
    for c, v in zip(order, res):
        if v:
            ctx.violations.append(dict(v, input=c))


def replay(ctx, data):
    v = data.get("violation") or {}
    case = v.get("input") or (data.get("correspondence_disagreements") or [{}])[0].get("case")
    if not case:
        print("nothing to replay")
        return 2
    print("implementation:", common.run_impl(ctx, "C14", "impl_apply", [case])[0])
    r = common.run_impl(ctx, "C14", "oracle_rc", [case])[0]
    print("oracle:", r)
    return 1 if r else 0
