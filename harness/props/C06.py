# coding: utf-8
"""C06 — typing verdicts do not depend on what was typed before."""
from harness import common, gens, pattern

EXTRA_OBLIGATION_FILES = ("Props/C06_kits.v", "Props/C06_src.v",)

LEVEL_NOTE = ("Invariant proof over all histories for the cache state machine (a stored pattern is the structure of the "
              "class that owns it); class identity and MRO heads proved by reflection over the kit table regenerated "
              "from the working tree; _structured.py tied by replaying histories (every ordered pair of the kit classes, "
              "random longer histories with run-time subclasses) on the implementation, in forked interpreters, and on "
              "the machine, answer by answer; the oracle compares with the same query issued first.")

IMPORTS_HEAD = """From MV Require Import Base Regex Typing Pipeline Cache KitLookup Glue.
From MV.Gen Require Import Kits.
From Coq Require Import String.
Open Scope string_scope.
Definition kit_ce (n : string) : centry :=
  match find_kit n with Some k => CE (kname k) (kmro k) (kcls k) | None => CE n [n] dummy_cls end.
Definition ostr_ok (a : option (list letter)) (b : option string) : bool :=
  match a, b with Some x, Some y => word_eqb x (dna y) | None, None => true | _, _ => false end.
Definition ans_ok (a : answer) (b : bool * option string * option string * option string) : bool :=
  let '(v, u, d, t) := a in let '(v', u', d', t') := b in
  Bool.eqb v v' && ostr_ok u u' && ostr_ok d d' && ostr_ok t t'.
Fixpoint all_ok (l : list answer) (o : list (bool * option string * option string * option string)) : bool :=
  match l, o with
  | [], [] => true
  | a :: l', b :: o' => ans_ok a b && all_ok l' o'
  | _, _ => false
  end.
Definition check (c : list (centry * list letter) * list (bool * option string * option string * option string)) : bool :=
  all_ok (fst (run lookup_own [] (fst c))) (snd c).
"""


def kit_classes(ctx):
    return [c for c in ctx.tables["classes"] if not c["abstract"] and c["structure"] is not None
            and c["cutter"] is not None and c["role"] is not None]


def make_instances(ctx):
    """one probe record per kit class: an instance of its structure plus a little backbone"""
    rng = ctx.rng
    inst = {}
    for c in kit_classes(ctx):
        items = pattern.tokenize(c["structure"], ctx.lettermap)
        inst[c["name"]] = gens.instantiate(rng, items, star=(1, 4)) + gens.rand_dna(rng, rng.randrange(0, 4))
    return inst


def gen_cases(ctx):
    rng = ctx.rng
    classes = kit_classes(ctx)
    inst = make_instances(ctx)
    names = [c["name"] for c in classes]
    spec = {c["name"]: gens.kit_spec(c) for c in classes}
    byname = {c["name"]: c for c in classes}
    cases = []
    # (a) every ordered pair: prime with A on A's instance, then query B on A's and on B's instance
    for a in names:
        for b in names:
            for probe in ((a, b) if a != b else (a,)):
                cases.append({"kind": "pair", "history": [
                    {"cls": spec[a], "rec": a, "ce": 'kit_ce "%s"' % a},
                    {"cls": spec[b], "rec": probe, "ce": 'kit_ce "%s"' % b}]})
    # (c) case-variant twins: a run-time class whose signature / structure is the kit class's spelled in
    #     lower case (lower-case ambiguity letters are literal), asked before and after the kit class
    for cno, p in enumerate(classes):
        if p["signature"] is not None and p["structure_owner"] == "AbstractPart":
            sig = [p["signature"][0].lower(), p["signature"][1].lower()]
            sp = {"kind": "sub", "name": "Twin%d" % cno, "parent": spec[p["name"]], "sig": sig}
            cl = "(part_cls %s %s %s %s)" % (gens.c_role(p["role"]), pattern.c_enzyme(p["cutter"]),
                                            pattern.c_pattern(pattern.tokenize(sig[0], ctx.lettermap)),
                                            pattern.c_pattern(pattern.tokenize(sig[1], ctx.lettermap)))
        else:
            text = p["structure"].lower()
            sp = {"kind": "custom", "role": p["role"], "enzyme": p["cutter"]["name"], "structure": text,
                  "name": "Twin%d" % cno}
            cl = "(C %s %s %s)" % (gens.c_role(p["role"]), pattern.c_enzyme(p["cutter"]),
                                   pattern.c_pattern(pattern.tokenize(text, ctx.lettermap)))
        ce = '(CE "Twin%d" ["Twin%d"] %s)' % (cno, cno, cl)
        a = {"cls": spec[p["name"]], "rec": p["name"], "ce": 'kit_ce "%s"' % p["name"]}
        b = {"cls": sp, "rec": p["name"], "ce": ce}
        cases.append({"kind": "twin", "history": [a, b]})
        cases.append({"kind": "twin", "history": [b, a]})
    # (d) neoschizomer twins: part classes with the same signature over two enzymes that share the
    #     recognition site but cut elsewhere, asked one after the other
    bysite = {}
    for e in ctx.tables["enzymes"]:
        bysite.setdefault(e["site"], {})[(e["off"], e["ovh"])] = e
    tw = 0
    for site, geos in sorted(bysite.items()):
        es = sorted(geos.values(), key=lambda e: e["name"])
        if len(es) < 2 or len(site) < 4:
            continue
        for e1 in es:
            for e2 in es:
                if e1 is e2:
                    continue
                steps = []
                for e in (e1, e2):
                    k = e["ovh"]
                    u, d = gens.rand_dna(rng, k), gens.rand_dna(rng, k)
                    m = gens.gen_module(rng, e, u, d, 4, 3)
                    if m is None:
                        break
                    rname = "neo_%s_%d" % (e["name"], tw)
                    inst[rname] = m["seq"]
                    sp = {"kind": "part", "role": "module", "enzyme": e["name"], "sig": [u, d], "name": "Neo%s%d" % (e["name"], tw)}
                    cl = "(part_cls RModule %s %s %s)" % (pattern.c_enzyme(e), pattern.c_pattern(pattern.tokenize(u, ctx.lettermap)),
                                                         pattern.c_pattern(pattern.tokenize(d, ctx.lettermap)))
                    steps.append({"cls": sp, "rec": rname, "ce": '(CE "%s" ["%s"] %s)' % (sp["name"], sp["name"], cl)})
                if len(steps) == 2:
                    cases.append({"kind": "neoschizomers", "history": steps})
                    tw += 1
    # (e) topology twins: the same class on a circular record whose structure only exists across the origin and on
    #     a linear record with the very same letters (a SeqRecord whose topology annotation says linear)
    for cno, p in enumerate(classes):
        s0 = inst[p["name"]]
        half = len(s0) // 2
        rname = "wrap_%s" % p["name"]
        inst[rname] = s0[half:] + s0[:half]
        a = {"cls": spec[p["name"]], "rec": rname, "ce": 'kit_ce "%s"' % p["name"]}
        b = dict(a, linear=True)
        cases.append({"kind": "topology-twin", "history": [a, b]})
        cases.append({"kind": "topology-twin", "history": [b, a]})
    # (f) namesakes: two distinct run-time part classes carrying the same __name__ (the same class statement
    #     executed twice by a factory with another signature), asked one after the other on an instance of each;
    #     a class is identified by the class object, never by its name (the model gives them distinct names)
    nsk = 0
    for p in classes:
        if p["signature"] is None or p["structure_owner"] != "AbstractPart" or p["cutter"] is None:
            continue
        if rng.random() > (0.5 if ctx.quick else 1.0):
            continue
        k1, k2 = len(p["signature"][0]), len(p["signature"][1])
        steps = []
        for j in range(2):
            sig = [gens.rand_dna(rng, k1), gens.rand_dna(rng, k2)]
            items = pattern.tokenize(p["structure"], ctx.lettermap)
            sp = {"kind": "sub", "name": "CustomPart", "parent": spec[p["name"]], "sig": sig}
            cl = "(part_cls %s %s %s %s)" % (gens.c_role(p["role"]), pattern.c_enzyme(p["cutter"]),
                                            pattern.c_pattern(pattern.tokenize(sig[0], ctx.lettermap)),
                                            pattern.c_pattern(pattern.tokenize(sig[1], ctx.lettermap)))
            rname = "namesake_%d_%d" % (nsk, j)
            if p["role"] == "module":
                m = gens.gen_module(rng, p["cutter"], sig[0], sig[1], 4, 3)
            else:
                m = gens.gen_vector(rng, p["cutter"], sig[0], sig[1], 4, 3)
            if m is None:
                break
            inst[rname] = m["seq"]
            mname = "CustomPart#%d#%d" % (nsk, j)
            steps.append({"cls": sp, "rec": rname,
                          "ce": '(CE "%s" ("%s" :: cmro (kit_ce "%s")) %s)' % (mname, mname, p["name"], cl)})
        if len(steps) == 2:
            a, b = steps
            cases.append({"kind": "namesakes", "history": [a, dict(b, rec=a["rec"]), b, dict(a, rec=b["rec"])]})
            cases.append({"kind": "namesakes", "history": [b, dict(a, rec=b["rec"]), a]})
            nsk += 1
    # (g) the same histories of related classes with every wrapper kept alive and one record OBJECT per probe shared
    #     by all the wrappers typed on it (a parent class first, then its subclasses on the very same object)
    for a in names:
        rel = [n for n in names if n != a and a in byname[n]["mro"]]
        for b in rel:
            cases.append({"kind": "alive-shared-record", "alive": True, "history": [
                {"cls": spec[a], "rec": a, "ce": 'kit_ce "%s"' % a, "alive": True},
                {"cls": spec[b], "rec": a, "ce": 'kit_ce "%s"' % b},
                {"cls": spec[b], "rec": b, "ce": 'kit_ce "%s"' % b},
                {"cls": spec[a], "rec": b, "ce": 'kit_ce "%s"' % a}]})
    # (h) long twins: two long plasmids of one module class that differ only in the middle of the target — one of
    #     them carries a further site of the cutter there (rejected: illegal site) — typed one after the other; first
    #     and last letters of the matched stretch are the same in both
    hn = 0
    for p in classes:
        if p["role"] != "module" or hn >= (6 if ctx.quick else 30):
            continue
        items = pattern.tokenize(p["structure"], ctx.lettermap)
        site = p["cutter"]["site"]
        clean = gens.instantiate(rng, items, star=(90, 110)) + gens.rand_dna(rng, 3)
        mid = len(clean) // 2
        if site in clean[len(site) + 2:-len(site) - 5] or gens.rc(site) in clean[len(site) + 2:-len(site) - 5]:
            continue
        dirty = clean[:mid] + site + clean[mid + len(site):]
        kc, kd = "LC%d" % hn, "LD%d" % hn
        inst[kc], inst[kd] = clean, dirty
        a = {"cls": spec[p["name"]], "rec": kc, "ce": 'kit_ce "%s"' % p["name"]}
        b = {"cls": spec[p["name"]], "rec": kd, "ce": 'kit_ce "%s"' % p["name"]}
        cases.append({"kind": "long-twins", "history": [a, b]})
        cases.append({"kind": "long-twins", "history": [b, a, b]})
        hn += 1
    # (b) random longer histories, with subclasses created at run time
    nh = 60 if ctx.quick else 600
    for hno in range(nh):
        steps = []
        dyn = {}
        for _ in range(rng.randrange(3, 31)):
            r = rng.random()
            if r < 0.25:
                # a new or existing run-time subclass of a kit class
                if dyn and rng.random() < 0.5:
                    dname = rng.choice(sorted(dyn))
                else:
                    parent = byname[rng.choice(names)]
                    dname = "Dyn%d_%d" % (hno, len(dyn))
                    sig = None
                    if parent["signature"] is not None and parent["structure_owner"] == "AbstractPart" and rng.random() < 0.7:
                        k = len(parent["signature"][0])
                        sig = [gens.rand_dna(rng, k, "ACGTN"), gens.rand_dna(rng, len(parent["signature"][1]), "ACGTN")]
                    dyn[dname] = (parent, sig)
                parent, sig = dyn[dname]
                sp = {"kind": "sub", "name": dname, "parent": spec[parent["name"]]}
                if sig:
                    sp["sig"] = sig
                    e = pattern.c_enzyme(parent["cutter"])
                    cl = "(part_cls %s %s %s %s)" % (gens.c_role(parent["role"]), e,
                                                    pattern.c_pattern(pattern.tokenize(sig[0], ctx.lettermap)),
                                                    pattern.c_pattern(pattern.tokenize(sig[1], ctx.lettermap)))
                else:
                    cl = '(kit_cls "%s")' % parent["name"]
                ce = '(CE "%s" ("%s" :: cmro (kit_ce "%s")) %s)' % (dname, dname, parent["name"], cl)
                rec = rng.choice([parent["name"], rng.choice(names)])
                steps.append({"cls": sp, "rec": rec, "ce": ce})
            else:
                # bias towards related classes: an ancestor/descendant of an earlier class
                if steps and rng.random() < 0.6:
                    prev = steps[rng.randrange(len(steps))]
                    pn = prev["cls"].get("name") if prev["cls"]["kind"] == "kit" else prev["cls"]["parent"]["name"]
                    rel = [n for n in names if n != pn and (pn in byname[n]["mro"] or n in byname[pn]["mro"])]
                    n = rng.choice(rel) if rel else rng.choice(names)
                else:
                    n = rng.choice(names)
                rec = rng.choice([n, n, steps[-1]["rec"] if steps else n, rng.choice(names)])
                steps.append({"cls": spec[n], "rec": rec, "ce": 'kit_ce "%s"' % n})
        cases.append({"kind": "history", "history": steps})
    return cases, inst


# ------------------------------------------------------------ worker side

_INST = {}


def _answers(history):
    from harness import implutil
    out = []
    alive = bool(history and history[0].get("alive"))
    keep, records = [], {}
    for st in history:
        if alive and not st.get("linear"):
            if st["rec"] not in records:
                records[st["rec"]] = implutil.mk_circular(_INST[st["rec"]], st["rec"])
            ent = implutil.get_class(st["cls"])(records[st["rec"]])
            keep.append(ent)
            t = implutil.typed_info(ent)
            out.append({"valid": t["valid"], "up": t["up"], "down": t["down"], "target": t["target"],
                        "exc": [t.get(k) for k in ("valid_exc", "up_exc", "down_exc", "target_exc")]})
            continue
        if st.get("linear"):
            from Bio.Seq import Seq
            from Bio.SeqRecord import SeqRecord
            rec = SeqRecord(Seq(_INST[st["rec"]]), id="lin", name="lin", annotations={"topology": "linear"})
            ent = implutil.get_class(st["cls"])(rec)
        else:
            ent = implutil.mk_entity({"cls": st["cls"], "seq": _INST[st["rec"]]}, st["rec"])
        t = implutil.typed_info(ent)
        out.append({"valid": t["valid"], "up": t["up"], "down": t["down"], "target": t["target"],
                    "exc": [t.get(k) for k in ("valid_exc", "up_exc", "down_exc", "target_exc")]})
    return out


def impl_history(case):
    """the whole history in one forked interpreter that has never typed anything"""
    from harness import implutil
    if "inst" in case:
        _INST.update(case["inst"])
        implutil.preload()
        return None
    return implutil.in_fork(_answers, case["history"])


def oracle_history(case):
    """each query of the history compared with the same query issued first (fresh fork)"""
    from harness import implutil
    if "inst" in case:
        _INST.update(case["inst"])
        implutil.preload()
        return None
    got = implutil.in_fork(_answers, case["history"])
    for i, st in enumerate(case["history"]):
        base = implutil.in_fork(_answers, [st])[0]
        if got[i] != base:
            prior = [h["cls"].get("name") for h in case["history"][:i]]
            qn = st["cls"].get("name")
            return {"signature": "C06:answer-depends-on-history",
                    "what": "%s on the probe of %s answers %s after typing %s, but %s when asked first"
                            % (qn, st["rec"], {k: got[i][k] for k in ("valid", "up", "down")}, prior,
                               {k: base[k] for k in ("valid", "up", "down")}),
                    "step": i}
    return None


def strict_fresh(case):
    """a whole new interpreter per query (sample)"""
    _INST.update(case["inst"])
    return _answers(case["history"])


# ------------------------------------------------------------ driver side

def c_opt(s):
    return "None" if s is None else '(Some "%s")' % s


def c_case(case, obs):
    h = "; ".join("(%s, r_%s)" % (st["ce"], st["rec"]) for st in case["history"])
    o = "; ".join("(%s, %s, %s, %s)" % (common.cbool(bool(a["valid"])), c_opt(a["up"]), c_opt(a["down"]), c_opt(a["target"]))
                  for a in obs)
    return "([%s], [%s])" % (h, o)


def run(ctx):
    ctx.rule = ("every ordered pair (prime A on an instance of A's structure, then query B on that record and on an "
                "instance of B's) over all concrete kit classes (exhaustive), plus random histories of 3-30 queries "
                "biased towards ancestor/descendant classes with subclasses created at run time; each history runs in a "
                "forked interpreter that never typed anything; non-trivial = the queried class differs from an earlier "
                "one and the probe is accepted by at least one of them")
    cases, inst = gen_cases(ctx)
    ctx.exhaustive = True
    nsh = common.NCPU
    shards = [[{"inst": inst}] + cases[i::nsh] for i in range(nsh)]
    flat = [c for sh in shards for c in sh]
    # run_impl shards round-robin; to keep the instance table first in every worker, run shard by shard
    from concurrent.futures import ThreadPoolExecutor
    with ThreadPoolExecutor(max_workers=nsh) as ex:
        outs = list(ex.map(lambda sh: common.run_impl(ctx, "C06", "impl_history", sh, shards=1), shards))
    obs = {}
    for s, out in enumerate(outs):
        for j, o in enumerate(out[1:]):
            obs[s + j * nsh] = o
    defs = "\n".join('Definition r_%s := dna "%s".' % (n, s) for n, s in sorted(inst.items()))
    terms, idx = [], []
    for i, c in enumerate(cases):
        o = obs[i]
        ctx.evaluations += 1
        ctx.count("kind:" + c["kind"])
        ctx.count("len:%d" % min(len(c["history"]), 10))
        if any(a["exc"][0] for a in o):
            ctx.violations.append({"signature": "C06:is_valid-raised", "what": "is_valid raised %s" % o, "input": c})
        if len({st["ce"] for st in c["history"]}) > 1 and any(a["valid"] for a in o):
            ctx.nontriv([[st["ce"], st["rec"]] for st in c["history"]])
        if any(st.get("linear") for st in c["history"]):
            continue            # the machine types circular records only: decided by the same-query-first oracle
        terms.append(c_case(c, o))
        idx.append(i)
    ctx.sample({"case": cases[1], "impl": obs[1]})
    bad = common.coq_eval_cases(ctx, "hist", IMPORTS_HEAD + defs, terms, "check", per_file=500)
    suspects = [cases[idx[b]] for b in bad]
    for b in bad:
        i = idx[b]
        ctx.disagreements.append({"case": dict(cases[i], inst={st["rec"]: inst[st["rec"]] for st in cases[i]["history"]}),
                                  "impl": obs[i], "observable": "answers (is_valid, overhangs, target) of the history vs Cache.run",
                                  "model_fn": "Cache.run lookup_own"})
    # oracle: suspects first, then every history
    order = suspects + cases
    oshards = [[{"inst": inst}] + order[i::nsh] for i in range(nsh)]
    with ThreadPoolExecutor(max_workers=nsh) as ex:
        outs = list(ex.map(lambda sh: common.run_impl(ctx, "C06", "oracle_history", sh, shards=1), oshards))
    for s, out in enumerate(outs):
        for j, v in enumerate(out[1:]):
            if v:
                c = order[s + j * nsh]
                ctx.violations.append(dict(v, input=dict(c, inst={st["rec"]: inst[st["rec"]] for st in c["history"]})))
    # strict baseline: a new interpreter per query, for a sample of the final queries
    sample = [c for c in cases if c["kind"] == "pair"]
    sample = ctx.rng.sample(sample, min(len(sample), 24 if ctx.quick else 200))
    strict = common.run_impl(ctx, "C06", "strict_fresh",
                             [{"inst": {c["history"][-1]["rec"]: inst[c["history"][-1]["rec"]]}, "history": [c["history"][-1]]}
                              for c in sample], fresh_each=True)
    for c, s in zip(sample, strict):
        i = cases.index(c)
        if s[0] != obs[i][-1]:
            ctx.violations.append({"signature": "C06:answer-depends-on-history",
                                   "what": "fresh interpreter answers %s, after priming %s" % (s[0], obs[i][-1]),
                                   "input": dict(c, inst={st["rec"]: inst[st["rec"]] for st in c["history"]})})
    ctx.count("strict-fresh-interpreters", len(sample))


def replay(ctx, data):
    v = data.get("violation") or {}
    case = v.get("input") or (data.get("correspondence_disagreements") or [{}])[0].get("case")
    if not case:
        print("nothing to replay")
        return 2
    inst = case.get("inst", {})
    res = common.run_impl(ctx, "C06", "oracle_history", [{"inst": inst}, case], shards=1)
    print("oracle:", res[1])
    return 1 if res[1] else 0
