# coding: utf-8
"""C20 — registries are coherent read-only mappings of uniquely identified plasmids."""
import copy

from harness import common

EXTRA_OBLIGATION_FILES = ("Props/C20_archives.v", "Props/C20_src.v", "Props/C20_resistance_src.v",)

LEVEL_NOTE = ("Theorems for embedded archives, combinations (all sequences of members: first wins, union, each key once) "
              "and directories (abstract stem/match functions, instantiated with string models of splitext and the "
              "case-insensitive glob); the five bundled archive indices are regenerated from the working tree and "
              "proved coherent by reflection (all entries). tar/gzip, GenBank parsing and fs are the environment: "
              "the real registries are run on the real archives and on generated directories and compared with the model.")

IMPORTS = """From Coq Require Import List Bool Arith String.
Import ListNotations.
From MV Require Import Registry Glue.
From MV.Gen Require Import Registries.
Open Scope string_scope.
Fixpoint smem (x : string) (l : list string) : bool :=
  match l with [] => false | y :: r => String.eqb x y || smem x r end.
Definition same_set (a b : list string) : bool :=
  Nat.eqb (List.length a) (List.length b) && forallb (fun x => smem x b) a && forallb (fun x => smem x a) b.
Fixpoint slist_eqb (a b : list string) : bool :=
  match a, b with [] , [] => true | x :: a', y :: b' => String.eqb x y && slist_eqb a' b' | _, _ => false end.
Definition oeqb (a b : option string) : bool :=
  match a, b with Some x, Some y => String.eqb x y | None, None => true | _, _ => false end.
Definition index_of_archive (a : list (string * string * bool * bool)) : list (string * string) :=
  map (fun e => (fst (fst (fst e)), snd (fst (fst e)))) a.
Definition find_archive (n : string) : list (string * string) :=
  match find (fun r => String.eqb (fst r) n) archives with Some r => index_of_archive (snd r) | None => [] end.
(* embedded: (registry, iteration, len, probes (key, id found or None)) *)
Definition check_emb (c : string * list string * nat * list (string * option string)) : bool :=
  let '(n, it, len, probes) := c in
  let ix := find_archive n in
  slist_eqb (emb_iter ix) it && Nat.eqb (emb_len ix) len &&
  forallb (fun p => oeqb (option_map snd (emb_lookup String.eqb ix (fst p))) (snd p)) probes.
(* combined: (members as (id, tag) lists, iteration, len, probes (key, tag found or None)) *)
Definition check_comb (c : list (list (string * string)) * list string * nat * list (string * option string)) : bool :=
  let '(regs, it, len, probes) := c in
  let d := combine String.eqb regs in
  slist_eqb (map fst d) it && Nat.eqb (List.length d) len &&
  forallb (fun p => oeqb (assoc String.eqb (fst p) d) (snd p)) probes.
(* directory: (extensions, listing, iteration, len, probes (key, found?)) *)
Definition check_fs (c : list string * list (string * bool) * list string * nat * list (string * bool)) : bool :=
  let '(exts, l, it, len, probes) := c in
  same_set (fs_iter splitext_stem (glob_matches exts) l) it &&
  Nat.eqb (fs_len (glob_matches exts) l) len &&
  forallb (fun p => Bool.eqb (match fs_lookup String.eqb splitext_stem (glob_matches exts) l (fst p) with
                              | Some _ => true | None => false end) (snd p)) probes.
"""

RESISTANCES = {"Kanamycin", "Chloramphenicol", "Ampicillin", "Spectinomycin"}


# ------------------------------------------------------------ worker side

def _registries():
    import importlib
    from moclo.registry.base import EmbeddedRegistry
    out = []
    for mod in ["ytk", "cidar", "ecoflex", "plant"]:
        m = importlib.import_module("moclo.registry." + mod)
        for nm in sorted(dir(m)):
            cls = getattr(m, nm)
            if isinstance(cls, type) and issubclass(cls, EmbeddedRegistry) and cls is not EmbeddedRegistry \
                    and cls.__module__ == m.__name__:
                out.append(cls)
    return out


def _lookup(reg, key):
    try:
        item = reg[key]
    except KeyError:
        return {"found": False}
    except Exception as e:  # noqa
        return {"found": None, "exc": type(e).__name__ + ": " + str(e)[:120]}
    from moclo.record import CircularRecord
    from moclo.core import AbstractModule, AbstractVector
    rec = item.entity.record if item.entity is not None else None
    return {"found": True, "id": item.id, "name": item.name,
            "rec_id": getattr(rec, "id", None), "circular": isinstance(rec, CircularRecord),
            "entity": isinstance(item.entity, (AbstractModule, AbstractVector)),
            "entity_cls": type(item.entity).__name__, "resistance": item.resistance}


def embedded_obs(_):
    out = []
    for cls in _registries():
        reg = cls()
        keys = list(reg)
        probes = {}
        for k in keys:
            probes[k] = _lookup(reg, k)
        for k in ["", "nope", keys[0] + "x", keys[0].lower() + "_", keys[-1][:-1]]:
            if k not in probes:
                probes[k] = _lookup(reg, k)
        out.append({"registry": cls.__name__, "iter": keys, "iter2": list(reg), "len": len(reg), "probes": probes,
                    "contains": {k: (k in reg) for k in probes}})
    return out


def combined_obs(case):
    from moclo.registry.base import AbstractRegistry, CombinedRegistry, Item

    class Fake(AbstractRegistry):
        def __init__(self, items):
            self._d = {}
            for k, tag in items:
                self._d[k] = Item(id=k, name=tag, entity=None, resistance="Kanamycin")

        def __getitem__(self, k):
            return self._d[k]

        def __iter__(self):
            return iter(self._d)

        def __len__(self):
            return len(self._d)

    def build(m):
        if isinstance(m, dict):          # a member that is itself a combination
            inner = CombinedRegistry()
            for sub in m["nested"]:
                inner << build(sub)
            return inner
        return Fake(m)

    comb = CombinedRegistry()
    built = []
    expected_keys = []          # what each member holds by itself: combining never changes a member
    for j, m in enumerate(case["members"]):
        if isinstance(m, dict) and "again" in m:
            # the very same member object, which gained items since it was first added (a directory that received files)
            reg = built[m["again"]]
            for k, tag in m["extra"]:
                reg._d[k] = Item(id=k, name=tag, entity=None, resistance="Kanamycin")
            for i, r in enumerate(built):
                if r is reg:
                    expected_keys[i] = list(reg)
            expected_keys.append(list(reg))
        else:
            reg = build(m)
            expected_keys.append(list(reg))
        built.append(reg)
        if j % 2:
            comb << reg
        else:
            comb.add_registry(reg)
    keys = list(comb)
    probes = {}
    for k in case["probes"]:
        probes[k] = _lookup(comb, k)
    changed = [j for j, (r, ks) in enumerate(zip(built, expected_keys))
               if list(r) != ks or len(r) != len(ks) or any((k in r) != (k in ks) for k in case["probes"])]
    return {"iter": keys, "len": len(comb), "probes": probes, "contains": {k: (k in comb) for k in case["probes"]},
            "members_changed": changed}


def fs_obs(case):
    import io
    import os
    import shutil
    import tempfile
    import Bio.SeqIO
    from moclo.registry.base import FilesystemRegistry
    from moclo.registry.ytk import YTKRegistry
    from moclo.kits import ytk
    src = YTKRegistry()
    d = tempfile.mkdtemp(prefix="moclo-verif-fs-", dir=os.environ.get("MOCLO_VERIF_TMP") or None)
    try:
        for name, kind, srcid in case["entries"]:
            p = os.path.join(d, name)
            if kind == "dir":
                os.mkdir(p)
                with open(os.path.join(p, "inner.gb"), "w") as fh:
                    fh.write("junk")
            elif kind == "junk":
                with open(p, "w") as fh:
                    fh.write("not a genbank file\n")
            else:
                rec = src[srcid].entity.record
                with open(p, "w") as fh:
                    Bio.SeqIO.write(rec, fh, "genbank")
        reg = FilesystemRegistry(d, ytk.YTKPart, extensions=tuple(case["exts"]))
        keys = list(reg)
        probes = {}
        for k in sorted(set(keys) | set(case["probes"])):
            probes[k] = _lookup(reg, k)
        return {"iter": keys, "iter2": list(reg), "len": len(reg), "probes": probes}
    finally:
        shutil.rmtree(d, True)


# ------------------------------------------------------------ driver side

LABEL_POOL = ["KanR", "CamR", "CmR", "KnR", "AmpR", "SmR", "SpecR", "kanr", "KanR ", "AmpR promoter", "ori", "ColE1",
              "BsaI", "Kanamycin", "", "CmR Terminator"]
SRC_IMPORTS = """From MV Require Import Base Regex Typing Py PyObj Glue SrcStructRun.
From Coq Require Import String List.
Import ListNotations.
Open Scope string_scope.
"""


def resistance_obs(feats):
    """find_resistance on a record whose features carry the given /label qualifiers (None: no such qualifier), and on
    two records that have the same cassettes: label values de-duplicated; features without any label dropped"""
    out = _resistance_obs(feats)
    dedup = [None if l is None else [x for i, x in enumerate(l) if x not in l[:i]] for l in feats]
    out["dedup"] = _resistance_obs(dedup)["out"]
    out["dropped"] = _resistance_obs([l for l in feats if l])["out"]
    return out


def _resistance_obs(feats):
    from Bio.Seq import Seq
    from Bio.SeqRecord import SeqRecord
    from Bio.SeqFeature import SeqFeature, FeatureLocation
    from moclo.registry._utils import find_resistance
    rec = SeqRecord(Seq("ACGT" * 10), id="r")
    for k, labels in enumerate(feats):
        q = {"note": ["n%d" % k]}
        if labels is not None:
            q["label"] = list(labels)
        rec.features.append(SeqFeature(FeatureLocation(k % 30, k % 30 + 5, strand=1), type="misc_feature", qualifiers=q))
    try:
        return {"out": find_resistance(rec)}
    except RuntimeError as e:
        return {"out": None, "exc": "RuntimeError"}
    except Exception as e:  # noqa
        return {"out": None, "exc": type(e).__name__, "msg": str(e)[:200]}


def cs(s):
    return '"%s"' % s.replace('"', '""')


def copt(s):
    return "None" if s is None else "(Some %s)" % cs(s)


def resolve_members(members):
    """what each member holds when it is added: a re-added object holds its earlier items plus what it gained"""
    out, state = [], {}
    for j, m in enumerate(members):
        if isinstance(m, dict) and "again" in m:
            i = m["again"]
            while isinstance(members[i], dict) and "again" in members[i]:
                i = members[i]["again"]
            state[i] = state[i] + [list(x) for x in m["extra"]]
            out.append(list(state[i]))
        else:
            if isinstance(m, list):
                state[j] = [list(x) for x in m]
            out.append(m)
    return out


def gen_combined(ctx):
    rng = ctx.rng
    cases = []
    pool = ["p%d" % i for i in range(8)]
    for _ in range(150 if ctx.quick else 2000):
        members = []
        for j in range(rng.randrange(0, 5)):
            if members and rng.random() < 0.2:
                members.append(copy.deepcopy(rng.choice(members)))          # an equal member again
                continue
            plain = [i for i, m in enumerate(members) if isinstance(m, list)]
            if plain and rng.random() < 0.2:
                i = rng.choice(plain)                                       # the same object again, after it grew
                ks = rng.sample(pool, rng.randrange(0, 4))
                members.append({"again": i, "extra": [[k, "m%d+:%s" % (j, k)] for k in ks if k not in [x[0] for x in members[i]]]})
                continue
            if rng.random() < 0.25:
                # a member that is itself a combined registry of 1-3 sub-members
                subs = []
                for t in range(rng.randrange(1, 4)):
                    ks = rng.sample(pool, rng.randrange(0, 5))
                    subs.append([[k, "m%d.%d:%s" % (j, t, k)] for k in ks])
                members.append({"nested": subs})
                continue
            ks = rng.sample(pool, rng.randrange(0, 6))
            members.append([[k, "m%d:%s" % (j, k)] for k in ks])
        cases.append({"members": members, "probes": pool + ["absent", ""]})
    return cases


def gen_fs(ctx, ytk_ids):
    rng = ctx.rng
    cases = []
    exts_all = [["gb", "gbk"], ["gb"], ["gbk", "genbank"], ["gb", "gbk", "GenBank"]]
    for _ in range(40 if ctx.quick else 400):
        exts = rng.choice(exts_all)
        entries, stems = [], set()
        for _ in range(rng.randrange(0, 8)):
            # also stems that would read as fnmatch patterns if a lookup were ever globbed by key
            stem = rng.choice(["a", "b", "part", "x.y", "P1", "p1", "long_name-2", "c d", "gb", "Z",
                               "clone[2]", "p[cam]ori", "a[b", "x]y", "q(+)"]) + rng.choice(["", "1", "_v2"])
            if stem.lower() in stems:
                continue
            stems.add(stem.lower())
            kind = rng.choice(["typed", "typed", "typed", "upper", "other-ext", "junk", "dir", "mixed"])
            if kind == "typed":
                entries.append([stem + "." + rng.choice(exts), "typed", rng.choice(ytk_ids)])
            elif kind == "upper":       # a listed extension spelled in upper case
                entries.append([stem + "." + rng.choice(exts).upper(), "typed", rng.choice(ytk_ids)])
            elif kind == "mixed":
                e = rng.choice(exts)
                entries.append([stem + "." + e[0].upper() + e[1:], "typed", rng.choice(ytk_ids)])
            elif kind == "other-ext":   # an unsupported extension: must be ignored
                entries.append([stem + rng.choice([".txt", ".fasta", ".gb.bak", ".gbx", ""]), "junk", None])
            elif kind == "junk":
                entries.append([stem + rng.choice([".dat", ".xgb", ".g"]), "junk", None])
            else:
                entries.append([stem + "." + rng.choice(exts), "dir", None])
        probes = sorted({e[0].rsplit(".", 1)[0] for e in entries} | {"absent", "a", "A"})
        cases.append({"exts": exts, "entries": entries, "probes": probes})
    return cases


def run(ctx):
    ctx.rule = ("embedded: every registry class of the four registry modules, every key (exhaustive) plus absent keys; "
                "combined: 150/2000 random sequences of 0-4 members over 8 ids with overlaps and repeated members, "
                "added with << and add_registry; directories: 40/400 generated directories of YTK plasmids under listed, "
                "upper-/mixed-case and unsupported extensions, dotted stems, sub-directories named like plasmids, junk; "
                "non-trivial = a lookup that finds an item")
    # ---- embedded
    emb = common.run_impl(ctx, "C20", "embedded_obs", [None], shards=1)[0]
    terms = []
    ytk_ids = []
    for r in emb:
        ctx.count("embedded:" + r["registry"], len(r["iter"]))
        if r["registry"] == "YTKRegistry":
            ytk_ids = [k for k, p in r["probes"].items() if p.get("found") and p["entity_cls"].startswith("YTKPart")]
        keys = r["iter"]
        inp = {"registry": r["registry"]}
        if r["iter2"] != keys:
            ctx.violations.append({"signature": "C20:embedded:iteration-unstable", "what": "two iterations differ", "input": inp})
        if len(set(keys)) != len(keys):
            ctx.violations.append({"signature": "C20:embedded:key-twice", "what": "%s yields a key twice" % r["registry"], "input": inp})
        if r["len"] != len(keys):
            ctx.violations.append({"signature": "C20:embedded:len", "what": "%s: len %d, %d keys" % (r["registry"], r["len"], len(keys)), "input": inp})
        for k, p in r["probes"].items():
            ctx.evaluations += 1
            if k in keys:
                ctx.nontriv([r["registry"], k])
                bad = None
                if p.get("found") is not True:
                    bad = "yielded key %r cannot be looked up (%s)" % (k, p.get("exc", "KeyError"))
                elif p["id"] != k or p["rec_id"] != k:
                    bad = "item found under %r has id %r / record id %r" % (k, p["id"], p["rec_id"])
                elif not p["circular"] or not p["entity"]:
                    bad = "item %r does not hold a circular record in a module/vector entity" % k
                elif p["resistance"] not in RESISTANCES:
                    bad = "item %r has no known resistance: %r" % (k, p["resistance"])
                elif not r["contains"][k]:
                    bad = "%r in registry is False" % k
                if bad:
                    ctx.violations.append({"signature": "C20:embedded:item", "what": r["registry"] + ": " + bad, "input": dict(inp, key=k)})
            elif p.get("found") is not False or r["contains"][k]:
                ctx.violations.append({"signature": "C20:embedded:absent-key",
                                       "what": "%s: absent key %r does not raise KeyError: %s" % (r["registry"], k, p), "input": dict(inp, key=k)})
        probes = "; ".join("(%s, %s)" % (cs(k), copt(p.get("id") if p.get("found") else None)) for k, p in r["probes"].items())
        terms.append("(%s, [%s], %d, [%s])" % (cs(r["registry"]), "; ".join(cs(k) for k in keys), r["len"], probes))
    bad = common.coq_eval_cases(ctx, "emb", IMPORTS, terms, "check_emb", per_file=10)
    for b in bad:
        ctx.disagreements.append({"case": {"registry": emb[b]["registry"]},
                                  "observable": "iteration / len / lookups of the embedded registry vs Registry.emb_* on the regenerated index",
                                  "model_fn": "Registry.emb_iter/emb_len/emb_lookup"})
    ctx.exhaustive = True
    # ---- combined
    ccases = gen_combined(ctx)
    cobs = common.run_impl(ctx, "C20", "combined_obs", ccases)
    terms = []
    for c, o in zip(ccases, cobs):
        ctx.evaluations += 1
        ctx.count("combined:members=%d" % len(c["members"]))
        if any(isinstance(m, dict) and "nested" in m for m in c["members"]):
            ctx.count("combined:with-nested-combination")
        if any(isinstance(m, dict) and "again" in m for m in c["members"]):
            ctx.count("combined:same-object-re-added-after-growing")
        union = []
        first = {}

        def flat(m):
            if isinstance(m, dict):
                seen, out = set(), []
                for sub in m["nested"]:
                    for k, tag in flat(sub):
                        if k not in seen:
                            seen.add(k)
                            out.append((k, tag))
                return out
            return [(k, tag) for k, tag in m]
        resolved = resolve_members(c["members"])
        for m in resolved:
            for k, tag in flat(m):
                if k not in first:
                    first[k] = tag
                    union.append(k)
        if first:
            ctx.nontriv(c["members"])
        v = None
        if sorted(o["iter"]) != sorted(union) or len(set(o["iter"])) != len(o["iter"]):
            v = ("C20:combined:keys", "keys %s, union of the members %s" % (o["iter"], union))
        elif o["len"] != len(union):
            v = ("C20:combined:len", "len %d for %d keys" % (o["len"], len(union)))
        elif o.get("members_changed"):
            v = ("C20:combined:member-changed", "after the combination, member(s) %s no longer hold exactly their own keys "
                                                "(a later combination of the same object would see foreign keys)" % o["members_changed"])
        else:
            for k, p in o["probes"].items():
                if (k in first) != bool(p.get("found")) or o["contains"][k] != (k in first):
                    v = ("C20:combined:lookup", "key %r: %s" % (k, p))
                elif k in first and (p["name"] != first[k] or p["id"] != k):
                    v = ("C20:combined:first-wins", "key %r found as %r, the first member holding it has %r" % (k, p["name"], first[k]))
        if v:
            ctx.violations.append({"signature": v[0], "what": v[1], "input": c})
        def cm(m):
            if isinstance(m, dict):
                return "(combine String.eqb [%s])" % "; ".join(cm(x) for x in m["nested"])
            return "[" + "; ".join("(%s, %s)" % (cs(k), cs(t)) for k, t in m) + "]"
        regs = "; ".join(cm(m) for m in resolved)
        probes = "; ".join("(%s, %s)" % (cs(k), copt(p.get("name") if p.get("found") else None)) for k, p in o["probes"].items())
        terms.append("([%s], [%s], %d, [%s])" % (regs, "; ".join(cs(k) for k in o["iter"]), o["len"], probes))
    bad = common.coq_eval_cases(ctx, "comb", IMPORTS, terms, "check_comb", per_file=500)
    for b in bad:
        ctx.disagreements.append({"case": ccases[b], "impl": cobs[b],
                                  "observable": "keys / len / lookups of CombinedRegistry vs Registry.combine",
                                  "model_fn": "Registry.combine"})
    # ---- directories
    fcases = gen_fs(ctx, sorted(ytk_ids)[:40])
    fobs = common.run_impl(ctx, "C20", "fs_obs", fcases)
    terms = []
    for c, o in zip(fcases, fobs):
        ctx.evaluations += 1
        exts = [e.lower() for e in c["exts"]]
        for name, kind, _ in c["entries"]:
            ext = name.rsplit(".", 1)[1].lower() if "." in name else ""
            ctx.count("dir-entry:%s:%s" % (kind, "listed-ext" if ext in exts else "other-ext"))
        keys = o["iter"]
        v = None
        # expected keys: typed files whose extension is listed, exactly or up to case
        exact = sorted(n.rsplit(".", 1)[0] for n, kind, _ in c["entries"]
                       if kind == "typed" and "." in n and n.rsplit(".", 1)[1] in c["exts"])
        if len(set(keys)) != len(keys) or o["iter2"] != keys:
            v = ("C20:fs:key-twice", "iteration %s" % keys)
        elif o["len"] != len(keys):
            v = ("C20:fs:len", "len %d, %d keys" % (o["len"], len(keys)))
        elif not set(exact) <= set(keys):
            v = ("C20:fs:missing-key", "files %s are not all listed: %s" % (exact, keys))
        else:
            typed_stems = {n.rsplit(".", 1)[0] for n, kind, _ in c["entries"] if kind == "typed"}
            for k in keys:
                if k not in typed_stems:
                    v = ("C20:fs:lists-ignored-entry", "key %r comes from a sub-directory or a non-plasmid file" % k)
            for k, p in o["probes"].items():
                if k in keys:
                    ctx.nontriv([c["entries"], k])
                    if p.get("found") is not True:
                        casev = k not in exact
                        v = ("C20:fs:listed-key-not-found" + (":extension-case" if casev else ""),
                             "key %r is yielded by iteration but lookup gives %s (entries %s, extensions %s)"
                             % (k, p.get("exc", "KeyError"), [e[0] for e in c["entries"]], c["exts"]))
                    elif p["id"] != k or p["rec_id"] != k or not p["circular"] or not p["entity"] \
                            or p["resistance"] not in RESISTANCES:
                        v = ("C20:fs:item", "item under %r: %s" % (k, p))
                elif p.get("found") is not False:
                    v = ("C20:fs:absent-key", "key %r is not yielded but lookup gives %s" % (k, p))
        if v:
            ctx.violations.append({"signature": v[0], "what": v[1], "input": c})
        listing = "; ".join("(%s, %s)" % (cs(n), "false" if kind == "dir" else "true") for n, kind, _ in c["entries"])
        probes = "; ".join("(%s, %s)" % (cs(k), common.cbool(bool(p.get("found")))) for k, p in o["probes"].items())
        terms.append("([%s], [%s], [%s], %d, [%s])" % ("; ".join(cs(e) for e in c["exts"]), listing,
                                                      "; ".join(cs(k) for k in keys), o["len"], probes))
    bad = common.coq_eval_cases(ctx, "fs", IMPORTS, terms, "check_fs", per_file=200)
    for b in bad:
        ctx.disagreements.append({"case": fcases[b], "impl": fobs[b],
                                  "observable": "keys / len / found-ness of FilesystemRegistry vs Registry.fs_*",
                                  "model_fn": "Registry.fs_iter/fs_len/fs_lookup"})
    ctx.sample({"directory": fcases[0]["entries"], "keys": fobs[0]["iter"]})
    # ---- find_resistance: random /label qualifiers (known cassettes, near-misses, repeated values, several cassettes on
    # one feature, features without the qualifier) — the implementation against the function regenerated from _utils.py
    rcases = []
    for _ in range(300 if ctx.quick else 4000):
        feats = []
        for _ in range(ctx.rng.randrange(0, 6)):
            r = ctx.rng.random()
            if r < 0.2:
                feats.append(None)
            else:
                pool = LABEL_POOL[7:] if ctx.rng.random() < 0.35 else LABEL_POOL
                feats.append([ctx.rng.choice(pool) for _ in range(ctx.rng.randrange(0, 4))])
        rcases.append(feats)
    robs = common.run_impl(ctx, "C20", "resistance_obs", rcases)
    rterms = []
    for c, o in zip(rcases, robs):
        ctx.evaluations += 1
        ctx.count("find_resistance:" + ("found" if o["out"] else "RuntimeError" if o.get("exc") == "RuntimeError" else "other"))
        if o["out"]:
            ctx.nontriv(c)
        if (o["out"] is None and o.get("exc") != "RuntimeError") or (o["out"] is not None and o["out"] not in RESISTANCES):
            ctx.violations.append({"signature": "C20:find_resistance:%s" % (o.get("exc") or "unknown-antibiotic"), "input": {"labels": c},
                                   "what": "find_resistance gives %r / %s" % (o["out"], o.get("exc"))})
        if o["dedup"] != o["out"] or o["dropped"] != o["out"]:
            ctx.violations.append({"signature": "C20:find_resistance:same-cassettes-other-answer", "input": {"labels": c},
                                   "what": "find_resistance gives %r, but %r with repeated label values removed and %r without "
                                           "the features that carry no label" % (o["out"], o["dedup"], o["dropped"])})
        rterms.append("([%s], %s)" % ("; ".join("None" if l is None else "Some [%s]" % "; ".join(cs(x) for x in l) for l in c),
                                      copt(o["out"])))
    bad = common.coq_eval_cases(ctx, "ressrc", SRC_IMPORTS, rterms, "check_resistance_src", per_file=500)
    for b in bad:
        ctx.disagreements.append({"case": {"labels": rcases[b]}, "impl": robs[b],
                                  "observable": "find_resistance vs find_resistance as regenerated from the source",
                                  "model_fn": "Gen/Src.v find_resistance_src"})


def replay(ctx, data):
    v = data.get("violation") or {}
    case = v.get("input") or (data.get("correspondence_disagreements") or [{}])[0].get("case")
    if not case:
        print("nothing to replay")
        return 2
    if "labels" in case:
        o = common.run_impl(ctx, "C20", "resistance_obs", [case["labels"]])[0]
        print("implementation:", o)
        bad = (o["out"] is None and o.get("exc") != "RuntimeError") or (o["out"] is not None and o["out"] not in RESISTANCES) \
            or o["dedup"] != o["out"] or o["dropped"] != o["out"]
        return 1 if bad else 0
    if "entries" in case:
        o = common.run_impl(ctx, "C20", "fs_obs", [case])[0]
        print("implementation:", o)
        bad = any(k in o["iter"] and p.get("found") is not True for k, p in o["probes"].items())
        return 1 if bad or o["len"] != len(o["iter"]) else 0
    if "members" in case:
        print("implementation:", common.run_impl(ctx, "C20", "combined_obs", [case])[0])
        return 0
    print("implementation:", [(r["registry"], r["len"], len(r["iter"])) for r in common.run_impl(ctx, "C20", "embedded_obs", [None])[0]])
    return 0
