# coding: utf-8
"""C11 — products of one level are valid modules of the next level."""
from harness import common, gens, pattern
from harness.props import C01, C02, C03

EXTRA_OBLIGATION_FILES = ("Props/C11_kits.v", "Props/C11_src.v",)

LEVEL_NOTE = ("Theorem for every vector class of the common shape that embeds the next level's sites (static check), every "
              "accepted vector, every insert of wildcard letters and every rotation: if the product carries the next-level "
              "site and its reverse complement once each, the generic next-level module class accepts it and its target "
              "contains the insert (via the canonical module lemma); by reflection over the kit table regenerated from the "
              "working tree the seven bundled (vector, next-level class) pairs pass the static check and the next-level "
              "classes are exactly the generic module classes. PARTIAL: the YTK entry vector + YTKProduct triple (the frame "
              "sits in the product, not in the vector) is decided by the differential part only. All eight triples are "
              "run on the implementation: vectors instantiated from the structure, chains of 1-3 inserts, every rotation "
              "of the product typed by the kit's next-level class, a second-level assembly of the product.")

IMPORTS = C02.IMPORTS

# (vector class, class of the inserts, next-level module class)
TRIPLES = [("CIDAREntryVector", "CIDARProduct", "CIDAREntry"), ("CIDARCassetteVector", "CIDAREntry", "CIDARCassette"),
           ("CIDARDeviceVector", "CIDARCassette", "CIDARDevice"), ("EcoFlexCassetteVector", "EcoFlexEntry", "EcoFlexCassette"),
           ("EcoFlexDeviceVector", "EcoFlexCassette", "EcoFlexDevice"), ("MoCloEntryVector", "MoCloProduct", "MoCloEntry"),
           ("MoCloCassetteVector", "MoCloEntry", "MoCloCassette"), ("YTKEntryVector", "YTKProduct", "YTKEntry")]


def count_sites(enz, s):
    return gens.count_circ(enz["site"], s), gens.count_circ(gens.rc(enz["site"]), s)


def gen_cases(ctx):
    rng = ctx.rng
    kit = {c["name"]: c for c in ctx.tables["classes"]}
    cases = []
    per = 6 if ctx.quick else 60
    for vname, mname, nname in TRIPLES:
        if vname not in kit or mname not in kit or nname not in kit:
            continue
        cv, cm, cn = kit[vname], kit[mname], kit[nname]
        vitems = pattern.tokenize(cv["structure"], ctx.lettermap)
        mitems = pattern.tokenize(cm["structure"], ctx.lettermap)
        enz, nenz = cv["cutter"], cn["cutter"]
        made = 0
        for _ in range(per * 30):
            if made >= per:
                break
            mirrored = False
            if mname == "YTKProduct":
                q = 1
                # the payload of a YTK product is its wildcard run (>= 2 nt): the product's own target carries the
                # next-level BsaI sites by design, so "the insert" of this triple is the run, not group 1 + group 2
                mseq, mg = gens.instantiate_groups(rng, mitems, star=(2, 8))
                mods = [{"seq": mseq + gens.rand_dna(rng, rng.randrange(0, 6)), "up": mg[1], "down": mg[3],
                         "frag": mg[2][9:len(mg[2]) - 7]}]
                try:
                    vseq, vg = gens.instantiate_groups(rng, vitems, fixed={1: mg[1], 3: mg[3]}, star=(0, 8))
                except ValueError:
                    continue
            else:
                q = rng.choice([1, 2, 3])
                allowed = []
                vseq, vg = gens.instantiate_groups(rng, vitems, star=(0, 8), allowed=allowed)
                if rng.random() < 0.25:
                    # the next level's fusion sites chosen as a reverse-complementary pair
                    v2 = gens.mirror_next_overhangs(vseq, allowed, nenz)
                    if v2 is not None and all(v2[i] == vseq[i] or allowed[i] for i in range(len(v2))):
                        # groups 1 and 3 of this level are re-read from the rewritten word below
                        delta = [i for i in range(len(v2)) if v2[i] != vseq[i]]
                        g1s = vseq.index(vg[1]) if vseq.count(vg[1]) == 1 else None
                        g3s = vseq.index(vg[3]) if vseq.count(vg[3]) == 1 else None
                        touched = any(g is None or (g <= i < g + len(vg[1])) for g in (g1s, g3s) for i in delta)
                        if not touched:
                            vseq = v2
                            mirrored = True
                ohs = gens.distinct_overhangs(rng, enz, q - 1) if q > 1 else []
                if ohs is None:
                    continue
                chain = [vg[1]] + ohs + [vg[3]]
                if len(set(chain)) != len(chain) or any(gens.rc(a) in chain for a in chain):
                    continue
                mods = []
                for j in range(q):
                    m = gens.gen_module(rng, enz, chain[j], chain[j + 1], rng.randrange(2, 9), rng.randrange(0, 6))
                    if m is None:
                        break
                    mods.append(m)
                if len(mods) != q:
                    continue
            vseq = vseq + gens.rand_dna(rng, rng.randrange(0, 6))
            if not gens.two_sites(enz, vseq) or any(not gens.two_sites(enz, m["seq"]) for m in mods):
                continue
            ins = "".join(m["frag"] for m in mods)
            made += 1
            order = list(range(q))
            rng.shuffle(order)
            cases.append({"triple": [vname, mname, nname], "q": q, "ins": ins, "nenz": nenz, "mirrored": mirrored,
                          "vector": {"cls": gens.kit_spec(cv), "seq": gens.new_origin(vseq, rng.randrange(0, len(vseq)))},
                          "modules": [{"cls": gens.kit_spec(cm), "seq": gens.new_origin(mods[i]["seq"], rng.randrange(0, len(mods[i]["seq"])))}
                                      for i in order],
                          "next": gens.kit_spec(cn)})
    return cases


# ------------------------------------------------------------ worker side

def impl_levels(case):
    from harness import implutil
    out = implutil.run_assembly({"vector": case["vector"], "modules": case["modules"], "typed": False})
    if out["out"] != "product":
        return {"asm": out}
    prod = out["seq"]
    nxt = implutil.get_class(case["next"])
    res = {"asm": out, "rot": []}
    n = len(prod)
    for k in case["ks"]:
        t = implutil.typed_info(nxt(implutil.mk_circular(gens.rotate(prod, k), "p")))
        res["rot"].append({"k": k, "valid": t["valid"], "up": t["up"], "down": t["down"], "target": t["target"]})
    # second level: the product as the only module of a generic vector of the next-level enzyme
    t0 = implutil.typed_info(nxt(implutil.mk_circular(prod, "p")))
    if t0["valid"]:
        import random
        rng = random.Random(case["seed"])
        v2 = gens.gen_vector(rng, case["nenz"], t0["down"].upper(), t0["up"].upper(), 5, 4)
        if v2 is not None and t0["up"].upper() != t0["down"].upper():
            vec2 = {"cls": gens.generic_spec("vector", case["nenz"]), "seq": v2["seq"]}
            o2 = implutil.run_assembly({"vector": vec2, "modules": [{"cls": case["next"], "seq": prod}], "typed": False})
            res["second"] = {"obs": o2, "expected": t0["target"] + v2["frag"], "vector": vec2}
            # the same composition on annotated inputs, feeding the product OBJECT (its features, its reference
            # list) to the next level: a citing feature inside the first insert
            try:
                from Bio.SeqFeature import SeqFeature, FeatureLocation
                from harness import recutil
                vec = implutil.mk_entity(case["vector"], "vector")
                mods = [implutil.mk_entity(m, "mod%d" % i) for i, m in enumerate(case["modules"])]
                m0 = mods[0]
                tgt = str(m0.target_sequence().seq).upper()
                sq = str(m0.record.seq).upper()
                idx = (sq * 2).find(tgt)
                a = (idx + 1) % len(sq)
                if idx >= 0 and a + 1 <= len(sq):
                    m0.record.annotations["references"] = [recutil.mk_reference(3), recutil.mk_reference(5)]
                    m0.record.features.append(SeqFeature(FeatureLocation(a, a + 1, 1), type="misc_feature",
                                                         qualifiers={"citation": ["[2]"], "label": ["cited"]}))
                    o1, pobj = implutil.observe_assembly(vec, mods)
                    if pobj is not None:
                        vec2e = implutil.mk_entity(vec2, "vector2")
                        o3, _ = implutil.observe_assembly(vec2e, [nxt(pobj)])
                        res["second_cited"] = {"first": o1["out"], "out": o3["out"], "exc": o3.get("exc"), "msg": o3.get("msg")}
                    else:
                        res["second_cited"] = {"first": o1["out"], "out": "first-level-failed", "exc": o1.get("exc")}
            except Exception as e:  # noqa
                res["second_cited"] = {"first": None, "out": "harness-exception", "exc": type(e).__name__, "msg": str(e)[:200]}
    return res


# ------------------------------------------------------------ driver side

def run(ctx):
    ctx.rule = ("the eight (vector class, insert class, next-level class) triples of the kits; vectors instantiated from the "
                "class structure (wildcard run 0-8, 0-5 extra letters, random origin), chains of 1-3 generated inserts "
                "(one YTKProduct instance for YTK) with targets of 2-8 nt at random origins, every plasmid and the product "
                "carrying exactly the sites of its level; the product typed by the next-level class at every rotation "
                "(all n if n <= 90, else 90 sampled), then assembled at the next level; non-trivial = a product was obtained")
    rng = ctx.rng
    cases = gen_cases(ctx)
    for c in cases:
        c["seed"] = rng.randrange(1 << 30)
    # a first pass to learn the product length is avoided: rotations are given as fractions of n, resolved by the worker
    for c in cases:
        nmax = len(c["vector"]["seq"]) + sum(len(m["seq"]) for m in c["modules"])
        c["ks"] = list(range(0, min(nmax, 90))) + [rng.randrange(0, nmax) for _ in range(10)]
    obs = common.run_impl(ctx, "C11", "impl_levels", cases)
    tcases, aterms, aidx = [], [], []
    for i, (c, o) in enumerate(zip(cases, obs)):
        ctx.evaluations += 1
        ctx.count("triple:" + c["triple"][0])
        if c.get("mirrored"):
            ctx.count("next-level-overhangs:reverse-complementary-pair")
        a = o["asm"]
        inp = {k: c[k] for k in ("triple", "q", "ins", "nenz", "vector", "modules", "next", "ks", "seed")}
        aterms.append(C03.c_raw(ctx, c, a))
        aidx.append(i)
        if a["out"] != "product":
            ctx.violations.append({"signature": "C11:level-assembly-failed:" + a["out"],
                                   "what": "%s with %d %s inserts ends with %s %s" % (c["triple"][0], c["q"], c["triple"][1], a["out"], a.get("oh") or a.get("exc") or ""),
                                   "input": inp})
            continue
        prod = a["seq"]
        ns, nr = count_sites(c["nenz"], prod)
        if (ns, nr) != (1, 1):
            ctx.count("skipped:next-level-site-count-%d-%d" % (ns, nr))
            continue
        ctx.nontriv([c["vector"]["seq"], [m["seq"] for m in c["modules"]]])
        bad = None
        for r in o["rot"]:
            if not r["valid"]:
                bad = ("C11:product-rejected-by-next-level", "%s rejects the product of %s rotated by %d" % (c["triple"][2], c["triple"][0], r["k"]))
                break
            if c["ins"].upper() not in r["target"].upper():
                bad = ("C11:insert-not-in-target", "the target %s reported by %s does not contain the insert %s (rotation %d)"
                       % (r["target"], c["triple"][2], c["ins"], r["k"]))
                break
        if bad is None and "second" in o:
            s2 = o["second"]
            if s2["obs"]["out"] != "product" or not C01.is_rotation(s2["obs"]["seq"].upper(), s2["expected"].upper()):
                bad = ("C11:second-level-assembly", "the product cannot be assembled at the next level: %s" % {k: s2["obs"].get(k) for k in ("out", "oh", "exc")})
            else:
                ctx.count("second-level-assemblies")
                aterms.append(C03.c_raw(ctx, {"vector": s2["vector"], "modules": [{"cls": c["next"], "seq": prod}]}, s2["obs"]))
                aidx.append(i)
                sc = o.get("second_cited")
                if sc and sc["out"] != "product":
                    bad = ("C11:second-level-assembly:annotated-product-object",
                           "with a cited feature on the first insert the product OBJECT cannot be assembled at the next "
                           "level (first level: %s; second level: %s %s %s)" % (sc.get("first"), sc["out"], sc.get("exc"), sc.get("msg")))
                elif sc:
                    ctx.count("second-level-assemblies-of-the-annotated-product-object")
        if bad:
            ctx.violations.append({"signature": bad[0], "what": bad[1], "input": inp})
        n = len(prod)
        tcases.append({"cls": c["next"], "seq": prod, "ks": sorted({k % n for k in c["ks"]})[:40], "tag": "product:" + c["triple"][0]})
    C02.eval_typing(ctx, tcases)
    badi = common.coq_eval_cases(ctx, "asm", IMPORTS, aterms, "check_raw", per_file=100)
    for b in badi:
        i = aidx[b]
        ctx.disagreements.append({"case": {k: cases[i][k] for k in ("triple", "q", "vector", "modules", "next")},
                                  "observable": "outcome / product of a level assembly vs Pipeline.assemble_raw", "model_fn": "Pipeline.assemble_raw"})


def replay(ctx, data):
    v = data.get("violation") or {}
    case = v.get("input") or (data.get("correspondence_disagreements") or [{}])[0].get("case")
    if not case or "ks" not in case:
        print("nothing to replay" if not case else "correspondence case: %s" % case.get("triple"))
        return 2 if not case else 0
    o = common.run_impl(ctx, "C11", "impl_levels", [case])[0]
    a = o["asm"]
    print("assembly:", {k: a.get(k) for k in ("out", "seq", "oh", "exc")})
    if a["out"] != "product":
        return 1
    bad = [r for r in o["rot"] if not r["valid"] or case["ins"].upper() not in (r["target"] or "").upper()]
    print("rotations rejected or without the insert:", [r["k"] for r in bad][:10])
    return 1 if bad else 0
