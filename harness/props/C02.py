# coding: utf-8
"""C02 — a plasmid has no origin: typing and assembly are rotation-invariant."""
EXTRA_OBLIGATION_FILES = ("Props/C02_src.v", "Props/C04_src.v", "Props/C03_src.v",)

from harness import common, gens, pattern
from harness.props import C03

LEVEL_NOTE = ("Theorems for every pattern, every record with a unique matching start and every k in Z (typing observables "
              "equal; assembly outcome and product word equal); regex.py/modules.py/vectors.py tied by comparing, for "
              "every rotation, what the implementation reports with the model's observe (rotr k s) for all kit classes, "
              "generic classes over every enzyme geometry, user signatures and registry plasmids; the oracle compares "
              "every rotation with the unrotated record (uniqueness decided by an independent enumerator).")

IMPORTS = """From MV Require Import Base Regex Typing Assembly Pipeline KitLookup Glue SrcGlue.
From Coq Require Import String.
Open Scope string_scope.
Definition ostr_ok (a : option (list letter)) (b : option string) : bool :=
  match a, b with Some x, Some y => word_eqb x (dna y) | None, None => true | _, _ => false end.
(* (valid, up, down, target, placeholder when the class reports one) *)
Definition obs_t := (bool * option string * option string * option string * option (option string))%type.
Definition obs_ok (c : cls) (s : list letter) (o : obs_t) : bool :=
  let '(v, u, d, t, p) := o in
  let '(v', u', d', t', p') := observe1 c s in
  Bool.eqb v v' && ostr_ok u' u && ostr_ok d' d && ostr_ok t' t &&
  match p with Some x => ostr_ok p' x | None => true end.
Definition src_obs_ok (c : cls) (s : list letter) (o : obs_t) : bool :=
  let '(v, u, d, t, p) := o in
  let '(v', u', d', t', p') := src_observe c s in
  Bool.eqb v v' && ostr_ok u' u && ostr_ok d' d && ostr_ok t' t &&
  match p with Some x => ostr_ok p' x | None => true end.
Definition check (c : cls * list letter * list (Z * obs_t)) : bool :=
  let '(cl, s, l) := c in
  forallb (fun x => obs_ok cl (rotr (fst x) s) (snd x)) l &&
  (* the translated accessors on the first rotations of the case (they recompute the match per query) *)
  (if Nat.leb (List.length s) 400 then forallb (fun x => src_obs_ok cl (rotr (fst x) s) (snd x)) (firstn 5 l) else true).
Definition check_raw (c : (cls * string) * list (cls * string) * asm_obs) : bool :=
  let '((vc, v), ms, obs) := c in
  let raw := map (fun x => (fst x, dna (snd x))) ms in
  asm_obs_ok (assemble_raw vc (dna v) raw) obs && asm_obs_ok (src_assemble vc (dna v) raw) obs.
"""

IUPAC = {"A": "A", "C": "C", "G": "G", "T": "T", "R": "AG", "Y": "CT", "S": "CG", "W": "AT", "K": "GT",
         "M": "AC", "B": "CGT", "D": "AGT", "H": "ACT", "V": "ACG", "N": "ACGTN"}


# ------------------------------------------------------------ generators

def typing_subjects(ctx, per_kit=1, per_enzyme=1, parts=20):
    """(class spec, sequence, tag) for kit classes, generic classes over every geometry, user signatures"""
    rng = ctx.rng
    out = []
    for c in ctx.tables["classes"]:
        if c["abstract"] or c["structure"] is None or c["cutter"] is None or c["role"] is None:
            continue
        try:
            items = pattern.tokenize(c["structure"], ctx.lettermap)
        except pattern.Unsupported:
            # a structure outside the flat fragment (e.g. a look-behind on the upstream site): the model cannot
            # speak about it (reported as such), but the rotation oracle can: an instance is generated from the
            # text with the look-around assertions turned into plain letters
            import re as _re
            relaxed = _re.sub(r"\(\?<?[=!]([^()]*)\)", r"\1", c["structure"])
            try:
                items = pattern.tokenize(relaxed, ctx.lettermap)
            except pattern.Unsupported:
                continue
        for _ in range(per_kit):
            s = gens.instantiate(rng, items, star=(0, 6)) + gens.rand_dna(rng, rng.randrange(0, 6))
            out.append((gens.kit_spec(c), gens.new_origin(s, rng.randrange(0, len(s))), "kit"))
    shapes = {}
    for e in ctx.tables["enzymes"]:
        shapes.setdefault((len(e["site"]), e["off"], e["ovh"]), e)
    for enz in sorted(shapes.values(), key=lambda e: e["name"]):
        if len(enz["site"]) < 4:
            continue
        for _ in range(per_enzyme):
            ohs = gens.distinct_overhangs(rng, enz, 2)
            if not ohs:
                continue
            m = gens.gen_module(rng, enz, ohs[0], ohs[1], rng.randrange(2, 9), rng.randrange(0, 8))
            v = gens.gen_vector(rng, enz, ohs[0], ohs[1], rng.randrange(2, 9), rng.randrange(0, 8))
            if m:
                out.append((gens.generic_spec("module", enz), m["seq"], "generic"))
            if v:
                out.append((gens.generic_spec("vector", enz), v["seq"], "generic"))
    enzymes = {e["name"]: e for e in ctx.tables["enzymes"]}
    for _ in range(parts):
        enz = enzymes[rng.choice(["BsaI", "BpiI", "BsmBI", "SapI", "BbvI"])]
        k = enz["ovh"]
        sig = ["".join(rng.choice("ACGTNNRYW") for _ in range(k)), "".join(rng.choice("ACGTNNSKM") for _ in range(k))]
        role = rng.choice(["module", "vector"])
        up = "".join(rng.choice(IUPAC[ch][:4] if ch != "N" else "ACGT") for ch in sig[0])
        down = "".join(rng.choice(IUPAC[ch][:4] if ch != "N" else "ACGT") for ch in sig[1])
        if role == "module":
            x = gens.gen_module(rng, enz, up, down, rng.randrange(2, 9), rng.randrange(0, 8))
        else:
            x = gens.gen_vector(rng, enz, up, down, rng.randrange(2, 9), rng.randrange(0, 8))
        if x:
            out.append(({"kind": "part", "role": role, "enzyme": enz["name"], "sig": sig}, x["seq"], "part"))
    # a lone further recognition site (either strand, any case) in the part of the plasmid the structure does
    # not cover: the verdict must not depend on where the origin falls relative to it
    kit_enz = {c["name"]: c["cutter"] for c in ctx.tables["classes"] if c.get("cutter")}
    planted = []
    for spec, seq, tag in out:
        if tag == "part" or rng.random() < (0.6 if tag == "kit" else 0.0):
            continue
        enz = kit_enz.get(spec.get("name")) if spec["kind"] == "kit" else enzymes.get(spec.get("enzyme"))
        if enz is None:
            continue
        site = rng.choice([enz["site"], gens.rc(enz["site"])])
        site = rng.choice([site, site.lower(), site])
        planted.append((spec, seq + gens.rand_dna(rng, rng.randrange(0, 3)) + site + gens.rand_dna(rng, rng.randrange(1, 4)),
                        tag + "+backbone-site"))
    return out + planted


# ------------------------------------------------------------ worker side

def own_regex(text):
    """independent transcription of a structure (upper-case ambiguity letters only, as the library does)"""
    import re
    out = []
    for ch in text:
        if ch in IUPAC and ch not in "ACGT":
            out.append("[" + IUPAC[ch] + "]")
        else:
            out.append(ch)
    return re.compile("".join(out), re.I)


def matching_starts(text, seq):
    rx = own_regex(text)
    n = len(seq)
    # read on the circle: a window of one turn starting at i, with the letters before i visible to a
    # look-behind assertion (three copies, the window taken in the middle one)
    d = seq * 3
    return [i for i in range(n) if rx.match(d, n + i, 2 * n + i)]


_ALIVE = []


def _topo(case):
    """the spelling of the topology annotation the records of this case carry (None: no annotation)"""
    return case.get("topology")


def _info(cls, seq, topo=None):
    from harness import implutil
    ent = cls(implutil.mk_circular(seq, "r", annotations={"topology": topo} if topo else None))
    # every wrapper stays alive while the others are asked (the same plasmid read from several origins, by
    # several wrappers of one class, at the same time): what one reports never depends on the others
    _ALIVE.append(ent)
    if len(_ALIVE) > 400:
        del _ALIVE[:200]
    t = implutil.typed_info(ent)
    return {k: t.get(k) for k in ("valid", "up", "down", "target", "placeholder")} , ("placeholder" in t)


def impl_rotations(case):
    from harness import implutil
    cls = implutil.get_class(case["cls"])
    seq = case["seq"]
    starts = matching_starts(cls.structure(), seq)
    out = {"starts": len(starts), "obs": []}
    for k in case["ks"]:
        info, hasp = _info(cls, gens.rotate(seq, k), _topo(case))
        info["has_placeholder"] = hasp
        out["obs"].append(info)
    if starts:
        ent = cls(implutil.mk_circular(seq, "r"))
        try:
            out["span"] = list(ent._match.span(0))
        except Exception:  # noqa
            out["span"] = None
    return out


def oracle_rotations(case):
    """every rotation reports what the unrotated record reports (when the structure occurs once)"""
    from harness import implutil
    cls = implutil.get_class(case["cls"])
    seq = case["seq"]
    if len(matching_starts(cls.structure(), seq)) != 1:
        return None
    base, _ = _info(cls, seq, _topo(case))
    # the very record object that was typed (and membership-tested) is then rotated with >> / <<
    rec0 = implutil.mk_circular(seq, "r", annotations={"topology": _topo(case)} if _topo(case) else None)
    # an annotation over the first letters of the structure (recognition site, spacer, overhang), as curated
    # plasmids carry: after `>> k` it may hang over the origin, and typing rotates the record once more
    from Bio.SeqFeature import SeqFeature, FeatureLocation
    s0 = matching_starts(cls.structure(), seq)[0]
    if s0 + 12 <= len(seq):
        rec0.features.append(SeqFeature(FeatureLocation(s0, s0 + 12, 1), type="misc_feature", qualifiers={"label": ["site"]}))
    cls(rec0).is_valid()
    _ = seq[:3] in rec0
    for k in case["ks"][:12]:
        for rot in (rec0 >> k, rec0 << (-k)):
            t = implutil.typed_info(cls(rot))
            got = {f: t.get(f) for f in ("valid", "up", "down", "target", "placeholder")}
            if got != base:
                diff = [f for f in base if base[f] != got[f]]
                return {"signature": "C02:typed-then-rotated:" + ",".join(diff),
                        "what": "%s: after typing a record and rotating that same object by %d it reports %s, unrotated %s"
                                % (cls.__name__, k, {f: got[f] for f in diff}, {f: base[f] for f in diff}), "k": k}
    for k in case["ks"]:
        got, _ = _info(cls, gens.rotate(seq, k), _topo(case))
        if got != base:
            diff = [f for f in base if base[f] != got[f]]
            start = matching_starts(cls.structure(), seq)[0]
            where = "inside-structure" if (start - (k % len(seq))) % len(seq) > len(seq) - 40 or (k % len(seq)) == 0 else "elsewhere"
            return {"signature": "C02:typing-depends-on-origin:" + ",".join(diff),
                    "what": "%s on a %d-nt record rotated by %d reports %s, unrotated %s (%s)"
                            % (cls.__name__, len(seq), k, {f: got[f] for f in diff}, {f: base[f] for f in diff}, where),
                    "k": k}
    return None


def registry_subjects(_):
    """every plasmid of the embedded registries with the class its registry gives it"""
    import importlib
    from harness.props import C20
    out = []
    for cls in C20._registries():
        reg = cls()
        for key in reg:
            item = reg[key]
            ent = item.entity
            kit = type(ent).__module__.split(".")[-1]
            try:
                valid = ent.is_valid()
                span = list(ent._match.span(0)) if valid else None
            except Exception:  # noqa
                valid, span = False, None
            out.append({"registry": cls.__name__, "id": key, "cls": {"kind": "kit", "kit": kit, "name": type(ent).__name__},
                        "seq": str(ent.record.seq), "valid": valid, "span": span})
    return out


def impl_assembly_rot(case):
    from harness import implutil
    return implutil.run_assembly({"vector": case["vector"], "modules": case["modules"], "typed": False})


# ------------------------------------------------------------ driver side

def c_opt(s):
    return "(@None string)" if s is None else '(Some "%s")' % s


def c_obs(o):
    p = "(@None (option string))"
    if o.get("has_placeholder"):
        p = "(Some %s)" % c_opt(o["placeholder"])
    return "(%s, %s, %s, %s, %s)" % (common.cbool(bool(o["valid"])), c_opt(o["up"]), c_opt(o["down"]), c_opt(o["target"]), p)


def flank_rotations(rng, n, span, extra=5, width=26):
    """rotations that put the origin inside or next to the two ends of the match, plus random ones"""
    a, b = span
    pos = set()
    for p in list(range(a - 2, a + width)) + list(range(b - width, b + 3)):
        pos.add(p % n)
    ks = sorted({(-p) % n for p in pos})
    ks += [rng.randrange(0, n) for _ in range(extra)]
    return ks


def eval_typing(ctx, cases, what="Typing.observe1 (rotr k s)"):
    """run the implementation on every (class, sequence, rotations) case, compare with the model inside
    Coq; returns (observations, suspects)"""
    rng = ctx.rng
    obs = common.run_impl(ctx, "C02", "impl_rotations", cases)
    defs, terms, idx = [], [], []
    for i, (c, o) in enumerate(zip(cases, obs)):
        ctx.count("subject:" + c["tag"].split(":")[0])
        ctx.count("starts:%s" % ("1" if o["starts"] == 1 else ("0" if o["starts"] == 0 else ">1")))
        for ob in o["obs"]:
            ctx.evaluations += 1
        if o["starts"] == 1 and o["obs"][0]["valid"]:
            ctx.nontriv([c["cls"], c["seq"][:60], len(c["seq"])])
        if not all(ch in "ACGTacgtNnRYSWKMBDHVryswkmbdhv" for ch in c["seq"]):
            continue
        try:
            cl = gens.c_cls(ctx, c["cls"])
        except pattern.Unsupported as e:
            ctx.disagreements.append({"case": {"cls": c["cls"]}, "observable": "class not translatable: %s" % e})
            continue
        defs.append('Definition s%d := dna "%s".' % (i, c["seq"]))
        # big plasmids: one case per rotation so that shards stay balanced
        pairs = ["(%s, %s)" % (common.cz(k), c_obs(ob)) for k, ob in zip(c["ks"], o["obs"])]
        if len(c["seq"]) > 300:
            for p in pairs:
                terms.append("(%s, s%d, [%s])" % (cl, i, p))
                idx.append(i)
        else:
            terms.append("(%s, s%d, [%s])" % (cl, i, "; ".join(pairs)))
            idx.append(i)
    ctx.sample({"case": {"cls": cases[0]["cls"], "seq": cases[0]["seq"], "rotations": len(cases[0]["ks"])},
                "impl": obs[0]["obs"][0]})
    # shard so that each file carries only the sequences it uses
    bad = []
    per = 40
    order = sorted(range(len(terms)), key=lambda t: -len(cases[idx[t]]["seq"]))
    big = [t for t in order if len(cases[idx[t]]["seq"]) > 300]
    small = [t for t in order if len(cases[idx[t]]["seq"]) <= 300]
    groups = [big[j::common.NCPU] for j in range(common.NCPU) if big[j::common.NCPU]] + \
             [small[j:j + per] for j in range(0, len(small), per)]
    from concurrent.futures import ThreadPoolExecutor

    def one(g):
        used = sorted({idx[t] for t in g})
        dd = "\n".join('Definition s%d := dna "%s".' % (i, cases[i]["seq"]) for i in used)
        b = common.coq_eval_cases(ctx, "rot%d" % g[0], IMPORTS, [terms[t] for t in g], "check", per_file=10000, extra_defs=dd)
        return [g[x] for x in b]
    with ThreadPoolExecutor(max_workers=common.NCPU) as ex:
        for r in ex.map(one, groups):
            bad += r
    suspects = []
    for t in sorted(set(bad)):
        i = idx[t]
        ctx.disagreements.append({"case": cases[i], "observable": "is_valid / overhangs / target / placeholder at some rotation vs "
                                                                  "Typing.observe1 (rotr k s)", "model_fn": "Typing.observe1"})
        suspects.append(cases[i])
    return obs, suspects


def run(ctx):
    ctx.rule = ("(a) every concrete kit class on an instance of its structure (stars 0-6, 0-5 extra letters, random "
                "origin), (b) generic module and vector classes over one enzyme per geometry and parts with random "
                "IUPAC signatures, each at ALL n rotations; (c) registry plasmids with their registry class at the "
                "rotations placing the origin in or next to the flanking structure plus random ones (sample in quick, all "
                "in thorough); (d) generated assemblies with every rotation of one element at a time; non-trivial = the "
                "record is accepted and has a unique matching start")
    rng = ctx.rng
    subjects = typing_subjects(ctx, per_kit=1 if ctx.quick else 4, per_enzyme=1 if ctx.quick else 3,
                               parts=20 if ctx.quick else 100)
    cases = []
    for spec, seq, tag in subjects:
        n = len(seq)
        # the records of a case carry no topology annotation, or one in some spelling the constructor accepts
        cases.append({"cls": spec, "seq": seq, "ks": list(range(n)) + [-1, n, 2 * n + 3], "tag": tag,
                      "topology": rng.choice([None, None, "circular", "Circular", "CIRCULAR"])})
    # registry plasmids
    regs = common.run_impl(ctx, "C02", "registry_subjects", [None], shards=1)[0]
    accepted = [r for r in regs if r["valid"]]
    ctx.count("registry-plasmids", len(regs))
    ctx.count("registry-plasmids-accepted", len(accepted))
    chosen = accepted if not ctx.quick else rng.sample(accepted, min(len(accepted), 10))
    for r in chosen:
        n = len(r["seq"])
        ks = flank_rotations(rng, n, r["span"], extra=5 if not ctx.quick else 2, width=26 if not ctx.quick else 8)
        if ctx.quick:
            ks = rng.sample(ks, min(len(ks), 10))
        cases.append({"cls": r["cls"], "seq": r["seq"], "ks": ks, "tag": "registry:" + r["id"]})
    obs, suspects = eval_typing(ctx, cases)
    ctx.exhaustive = True
    res = common.run_impl(ctx, "C02", "oracle_rotations", suspects + cases)
    for c, v in zip(suspects + cases, res):
        if v:
            ctx.violations.append(dict(v, input={"cls": c["cls"], "seq": c["seq"], "ks": [v["k"]], "tag": c["tag"]}))
    # (d) assemblies: every rotation of one element at a time
    enzymes = {e["name"]: e for e in ctx.tables["enzymes"]}
    acases = []
    for ename in (["BsaI", "BpiI", "BtgZI", "SapI"] if ctx.quick else ["BsaI", "BpiI", "BtgZI", "SapI", "BsmBI", "FokI", "BbvI", "AarI", "HgaI"]):
        for _ in range(1 if ctx.quick else 4):
            ch = gens.gen_chain(rng, enzymes[ename], rng.choice([1, 2, 3]), tmax=6, bmax=4)
            if ch is None:
                continue
            elems = [ch["vector"]] + ch["modules"]
            for e_i, el in enumerate(elems):
                for k in range(len(el["seq"])):
                    seqs = [gens.rotate(x["seq"], k) if j == e_i else x["seq"] for j, x in enumerate(elems)]
                    acases.append({"enz": ename, "expected": ch["expected"], "elem": e_i, "k": k,
                                   "vector": {"cls": gens.generic_spec("vector", enzymes[ename]), "seq": seqs[0]},
                                   "modules": [{"cls": gens.generic_spec("module", enzymes[ename]), "seq": s} for s in seqs[1:]]})
    aobs = common.run_impl(ctx, "C02", "impl_assembly_rot", acases)
    aterms = []
    for c, o in zip(acases, aobs):
        ctx.evaluations += 1
        ctx.count("assembly-rotations")
        if o["out"] != "product" or o["seq"] != c["expected"]:
            ctx.violations.append({"signature": "C02:assembly-depends-on-origin",
                                   "what": "rotating element %d by %d gives %s instead of the product %s"
                                           % (c["elem"], c["k"], o.get("seq", o["out"]), c["expected"]), "input": c})
        else:
            ctx.nontriv([c["vector"]["seq"], [m["seq"] for m in c["modules"]]])
        aterms.append(C03.c_raw(ctx, c, o))
    abad = common.coq_eval_cases(ctx, "asm", IMPORTS, aterms, "check_raw", per_file=200)
    for b in abad:
        ctx.disagreements.append({"case": acases[b], "impl": aobs[b], "observable": "outcome and product of vector.assemble vs "
                                                                                    "Pipeline.assemble_raw", "model_fn": "Pipeline.assemble_raw"})


def replay(ctx, data):
    v = data.get("violation") or {}
    case = v.get("input") or (data.get("correspondence_disagreements") or [{}])[0].get("case")
    if not case:
        print("nothing to replay")
        return 2
    if "vector" in case:
        o = common.run_impl(ctx, "C02", "impl_assembly_rot", [case])[0]
        print("implementation:", o.get("seq", o["out"]), "expected:", case.get("expected"))
        return 0 if o.get("seq") == case.get("expected") else 1
    r = common.run_impl(ctx, "C02", "oracle_rotations", [case])[0]
    print("oracle:", r)
    return 1 if r else 0
