# coding: utf-8
"""C10 — literature citations survive assembly with consistent numbering."""
EXTRA_OBLIGATION_FILES = ("Props/C10_src.v", "Props/C07_src.v",)

import copy
import re

from harness import annot, common, srcrun

LEVEL_NOTE = ("Theorems on the model of the re-referencing fold (every index points to the cited reference, each "
              "reference once, first-use order) for all feature/citation lists; _assembly.py tied by comparing the "
              "product's reference list and citation indices with the model on generated assemblies with shared, "
              "repeated and unused references, over consecutive calls; independent oracle through feature labels.")

IMPORTS = """From MV Require Import Base Citations Glue.
Definition check (c : list crec * option (list nat * list (list nat))) : bool :=
  let '(s, obs) := c in
  match product_citations s, obs with
  | Some (R, idx), Some (R', idx') => list_eqb Nat.eqb R R' && list_eqb (list_eqb Nat.eqb) idx idx'
  | None, None => true
  | _, _ => false
  end.
"""

CIT_RX = re.compile(r"^\[(\d+)\]$")


def gen_cases(ctx):
    rng = ctx.rng
    enzymes = {e["name"]: e for e in ctx.tables["enzymes"]}
    cases = []
    n = 120 if ctx.quick else 1500
    tries = 0
    while len(cases) < n and tries < 10 * n:
        tries += 1
        enz = enzymes[rng.choice(["BsaI", "BpiI", "BsmBI", "SapI", "FokI", "BbvI"])]
        q = rng.choice([1, 2, 2, 3, 4])
        ch = annot.gen_cited_chain(ctx, enz, q, pool=rng.choice([3, 6, 10]))
        if ch is None:
            continue
        order = list(range(q))
        rng.shuffle(order)
        if rng.random() < 0.15:
            # the same module OBJECT listed twice (harmless without citations: it is one module)
            order.append(rng.choice(order))
        cases.append({"enz": enz["name"], "q": q, "elements": ch["elements"], "order": order,
                      "calls": rng.choice([1, 2, 3]),
                      "fail_first": rng.choice([None, None, "missing" if q > 1 else "bad-citation", "bad-citation"]),
                      # what the extra citation of a bad-citation history reads: out of range, Python's negative
                      # index, not of the bracketed form, a prefix match, leading zeros, not a string at all
                      "bad_cit": rng.choice(["[99]", "[99]", "[0]", "[]", "[1", "x", "", "[a]", "[1]x", "[01]", "<ref>",
                                             "[ 1]", "[1 ]", "[-1]", "1]", "[1][2]"])})
    return cases


# ------------------------------------------------------------ worker side

def run_product(case):
    from harness import implutil
    ents = annot.build(case["elements"])
    q = case["q"]
    out = {"calls": []}
    pre = annot.cit_snapshot(ents)
    out["src_inputs"] = [srcrun.dump_input(e) for e in ents]
    if case.get("fail_first") == "missing":
        # a consecutive-calls history that starts with an assembly that cannot complete (one module left out)
        fobs, _ = implutil.observe_assembly(ents[q], [ents[i] for i in case["order"][1:]], id="prod", name="prod")
        out["failed_call"] = {"out": fobs.get("out"), "inputs_same": annot.cit_snapshot(ents) == pre}
    elif case.get("fail_first") == "bad-citation":
        # ... or with a call made while a citing feature also holds an index that is out of range; the mistake
        # is corrected afterwards and the calls proceed
        cited = [f for e in ents for f in e.record.features if f.qualifiers.get("citation")]
        if cited:
            f = cited[len(cited) // 2]
            badc = case.get("bad_cit", "[99]")
            if badc == "<ref>":
                from harness import recutil
                badc = recutil.mk_reference(7)
            f.qualifiers["citation"].append(badc)
            before = annot.cit_snapshot(ents)
            out["src_failed_inputs"] = [srcrun.dump_input(e) for e in ents]
            fobs, fprod = implutil.observe_assembly(ents[q], [ents[i] for i in case["order"]], id="prod", name="prod")
            out["src_failed_obs"] = fobs
            out["src_failed_product"] = srcrun.dump_product(fprod) if fprod is not None else None
            out["failed_call"] = {"out": fobs.get("out") + ":" + str(fobs.get("exc")), "inputs_same": annot.cit_snapshot(ents) == before}
            if f.qualifiers["citation"][-1] is badc or f.qualifiers["citation"][-1] == badc:
                f.qualifiers["citation"].pop()
            else:
                out["failed_call"]["inputs_same"] = False
    for _ in range(case["calls"]):
        obs, prod = implutil.observe_assembly(ents[q], [ents[i] for i in case["order"]], id="prod", name="prod")
        view = annot.product_view(prod) if prod is not None else None
        if "src_obs" not in out:
            out["src_obs"] = obs
            out["src_product"] = srcrun.dump_product(prod) if prod is not None else None
            if prod is not None:
                out["reread"] = reread(prod)
        out["calls"].append({"obs": {k: obs.get(k) for k in ("out", "exc", "msg")}, "product": view,
                             "inputs_same": annot.cit_snapshot(ents) == pre})
    # the same assembly without any citation or reference
    plain = copy.deepcopy(case["elements"])
    for e in plain:
        e["rec"]["refs"] = None
        for f in e["rec"]["features"]:
            f.pop("cit", None)
    pents = annot.build(plain)
    pobs, pprod = implutil.observe_assembly(pents[q], [pents[i] for i in case["order"]], id="prod", name="prod")
    out["plain"] = annot.product_view(pprod) if pprod is not None else {"out": pobs["out"]}
    return out


def reread(prod):
    """the product as an input of the next level: the library's own dereferencing of a copy of it must turn every
    citation into the reference it points to"""
    from harness import recutil
    try:
        from moclo.core._assembly import AssemblyManager
        deref = AssemblyManager._deref_citations
    except (ImportError, AttributeError):
        return None
    p2 = copy.deepcopy(prod)
    refs = [recutil.ref_id(r) for r in p2.annotations.get("references", [])]
    before = [list(f.qualifiers.get("citation", [])) for f in p2.features]
    try:
        deref(AssemblyManager.__new__(AssemblyManager), p2)
    except TypeError:
        return None        # another signature: not the method this clause knows
    except Exception as e:  # noqa
        return {"error": "%s: %s" % (type(e).__name__, e)}
    bad = []
    for f, b in zip(p2.features, before):
        for c0, c in zip(b, f.qualifiers.get("citation", [])):
            m = CIT_RX.match(c0) if isinstance(c0, str) else None
            want = refs[int(m.group(1)) - 1] if m and 1 <= int(m.group(1)) <= len(refs) else None
            got = recutil.ref_id(c) if not isinstance(c, str) else c
            if want is None or got != want:
                bad.append([c0, got, want])
    return {"bad": bad[:3]} if bad else {}


def oracle(case, res):
    """independent statement of C10 through feature labels"""
    src = {}
    for e in case["elements"]:
        refs = e["rec"]["refs"] or []
        for f in e["rec"]["features"]:
            src[f["q"]] = (f, refs)
    first = res["calls"][0]
    fc = res.get("failed_call")
    if fc and not fc["inputs_same"]:
        return {"signature": "C10:inputs-renumbered-by-failed-call",
                "what": "after an assembly that ends with %s the inputs' citation qualifiers are not what they were" % fc["out"]}
    if first["obs"]["out"] != "product":
        return {"signature": "C10:assembly-with-citations-fails",
                "what": "records with citations do not assemble: %s %s" % (first["obs"]["exc"], first["obs"]["msg"])}
    rr = res.get("reread")
    if rr and (rr.get("error") or rr.get("bad")):
        return {"signature": "C10:product-not-readable-at-next-level",
                "what": "the library's own _deref_citations on a copy of the product: %s" % (rr.get("error") or rr.get("bad"))}
    for k, call in enumerate(res["calls"]):
        p = call["product"]
        if p is None:
            return {"signature": "C10:repeat-fails", "what": "call %d fails: %s" % (k, call["obs"])}
        if not call["inputs_same"]:
            return {"signature": "C10:inputs-renumbered", "what": "the inputs' citation qualifiers differ after call %d" % k}
        R = p["refs"]
        if len(set(R)) != len(R):
            return {"signature": "C10:reference-twice", "what": "product reference list %s repeats a reference" % R}
        cited = set()
        for f in p["features"]:
            if f["q"] is None or f["q"] not in src:
                continue
            sf, srefs = src[f["q"]]
            want = []
            for c in sf.get("cit", []):
                want.append(srefs[int(CIT_RX.match(c).group(1)) - 1])
            got = []
            for c in f.get("cit", []):
                m = CIT_RX.match(c) if isinstance(c, str) else None
                if not m:
                    return {"signature": "C10:citation-format",
                            "what": "product citation %r is not in GenBank bracketed-index form" % (c,)}
                i = int(m.group(1))
                if not 1 <= i <= len(R):
                    return {"signature": "C10:index-out-of-range", "what": "citation [%d] with %d references" % (i, len(R))}
                got.append(R[i - 1])
            if got != want:
                return {"signature": "C10:points-elsewhere",
                        "what": "feature L%d cited references %s in its source, %s in the product (list %s)"
                                % (f["q"], want, got, R)}
            cited.update(want)
        if set(R) != cited:
            return {"signature": "C10:uncited-reference", "what": "product references %s, cited %s" % (R, sorted(cited))}
        if k and p != res["calls"][0]["product"]:
            return {"signature": "C10:repeat-differs", "what": "call %d gives another product than the first call" % k}
    pl = res["plain"]
    p = res["calls"][0]["product"]
    if "seq" not in pl or pl["seq"] != p["seq"] or \
            [(f["type"], f["q"], f["parts"]) for f in pl["features"]] != [(f["type"], f["q"], f["parts"]) for f in p["features"]]:
        return {"signature": "C10:differs-from-plain", "what": "with citations the product sequence or feature table differs"}
    return None


# ------------------------------------------------------------ driver side

def c_case(case, res):
    q = case["q"]
    chain = list(range(q)) + [q]
    s = annot.model_store(case["elements"], chain)
    p = res["calls"][0]["product"]
    if p is None:
        return "(%s, None)" % annot.store_term(s)
    bylabel = {f["q"]: f for f in p["features"] if f["q"] is not None}
    idx = []
    for i in chain:
        for f in case["elements"][i]["rec"]["features"]:
            if not f.get("kept"):
                continue
            pf = bylabel.get(f["q"])
            if pf is None:
                raise KeyError("feature L%d missing from the product" % f["q"])
            cs = []
            for c in pf.get("cit", []):
                m = CIT_RX.match(c) if isinstance(c, str) else None
                if not m:
                    raise KeyError("citation %r not in bracketed form" % (c,))
                cs.append(int(m.group(1)))
            idx.append(cs)
    return "(%s, Some ([%s], [%s]))" % (annot.store_term(s), "; ".join("%d" % r for r in p["refs"]),
                                        "; ".join("[" + "; ".join("%d" % c for c in cs) + "]" for cs in idx))


def run(ctx):
    ctx.rule = ("chains of 1-4 generated modules over six enzymes; per record 0-4 references drawn from a pool of 3/6/10 "
                "ids (shared between inputs, sometimes repeated inside a list, sometimes absent), 0-4 features inside, "
                "outside or across the retained fragment citing 0-3 references; 1-3 consecutive calls, a third of the histories "
                "starting with a call that cannot complete (a module left out) or made while a citing feature holds one more "
                "citation drawn from sixteen malformed / edge forms; every first call (and failing first call) also run through "
                "vector.assemble as regenerated from the source, whole product record or exception class compared; "
                "non-trivial = the product inherits at least one citing feature")
    cases = gen_cases(ctx)
    res = common.run_impl(ctx, "C10", "run_product", cases)
    terms, idx = [], []
    for i, (c, r) in enumerate(zip(cases, res)):
        ctx.evaluations += 1
        ctx.count("calls:%d" % c["calls"])
        if c.get("fail_first"):
            ctx.count("history:failed-call-first:" + c["fail_first"])
        ctx.count("chain:%d" % c["q"])
        kept_cited = sum(1 for e in c["elements"] for f in e["rec"]["features"] if f.get("kept") and f.get("cit"))
        ctx.count("kept-citing-features:%d" % min(kept_cited, 5))
        if kept_cited:
            ctx.nontriv(c)
        v = oracle(c, r)
        if v:
            ctx.violations.append(dict(v, input=c))
        try:
            terms.append(c_case(c, r))
            idx.append(i)
        except KeyError as e:
            ctx.disagreements.append({"case": c, "observable": str(e)})
    ctx.sample({"elements": [e["rec"]["refs"] for e in cases[0]["elements"]],
                "product_refs": (res[0]["calls"][0]["product"] or {}).get("refs")})
    bad = common.coq_eval_cases(ctx, "cite", IMPORTS, terms, "check", per_file=400)
    for b in bad:
        i = idx[b]
        ctx.disagreements.append({"case": cases[i], "impl": res[i]["calls"][0],
                                  "observable": "product reference list and citation indices vs Citations.product_citations",
                                  "model_fn": "Citations.product_citations"})
    src_cases(ctx, cases, res)


def src_terms(ctx, c, r):
    """the calls of the case as run through vector.assemble regenerated from the source"""
    q = c["q"]
    out = []
    for inputs, obs, prod in ((r.get("src_failed_inputs"), r.get("src_failed_obs"), r.get("src_failed_product")),
                              (r.get("src_inputs"), r.get("src_obs"), r.get("src_product"))):
        if inputs is None or obs is None:
            continue
        vector = (c["elements"][q]["cls"], inputs[q])
        modules = [(c["elements"][i]["cls"], inputs[i]) for i in c["order"]]
        out.append(srcrun.c_case(ctx, vector, modules, {"id": "prod", "name": "prod"}, obs, prod))
    return out


def src_cases(ctx, cases, res):
    terms, idx = [], []
    for i, (c, r) in enumerate(zip(cases, res)):
        try:
            for t in src_terms(ctx, c, r):
                terms.append(t)
                idx.append(i)
        except (KeyError, ValueError) as e:
            ctx.disagreements.append({"case": c, "observable": "src: " + str(e)})
    ctx.count("src-runs", len(terms))
    bad = common.coq_eval_cases(ctx, "srcrun", srcrun.IMPORTS, terms, "src_run_check", per_file=60)
    for b in bad:
        i = idx[b]
        ctx.disagreements.append({"case": cases[i], "impl": {"obs": res[i].get("src_obs"), "product": res[i].get("src_product")},
                                  "observable": "vector.assemble as regenerated from the source (run_assemble): product record "
                                                "(sequence, ids, feature table with citations, references, annotations, comment), "
                                                "unused modules or exception class, inputs unchanged",
                                  "model_fn": "Gen/Src.v run_assemble"})


def replay(ctx, data):
    v = data.get("violation") or {}
    case = v.get("input") or (data.get("correspondence_disagreements") or [{}])[0].get("case")
    if not case:
        print("nothing to replay")
        return 2
    r = common.run_impl(ctx, "C10", "run_product", [case])[0]
    o = oracle(case, r)
    print("oracle:", o)
    return 1 if o else 0
