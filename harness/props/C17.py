# coding: utf-8
"""C17 — validation is total and failures are always reported as MoClo errors."""
from harness import common, gens, pattern, recutil
from harness.props import C02, C03

EXTRA_OBLIGATION_FILES = ("Props/C17_kits.v", "Props/C17_src.v",)
LEVEL_NOTE = ("THIN THEOREMS + DIFFERENTIAL: the model's typing and assembly are total functions whose only failures are "
              "the documented errors (proved: queries on a rejected record are the error, queries on an accepted record "
              "of any class of the common shape are defined, an assembly never ends in an internal error; all kit and "
              "generic structures have the shape by reflection). The decisive part is the correspondence: the "
              "implementation raising anything else on random IUPAC strings, corrupted structure instances or mixed "
              "assemblies disagrees with the total model and is reported with the input.")

IMPORTS = C02.IMPORTS


# ------------------------------------------------------------ worker side

def impl_queries(case):
    from harness import implutil
    cls = implutil.get_class(case["cls"])
    ent = cls(implutil.mk_circular(case["seq"], "r"))
    t = implutil.typed_info(ent)
    return {"valid": t["valid"], "valid_exc": t.get("valid_exc"),
            "errs": {k: t.get(k + "_exc") for k in ("up", "down", "target")},
            "vals": {k: t.get(k) for k in ("up", "down", "target")}}


def list_offfamily(_):
    from Bio import Restriction
    return sorted(str(e) for e in Restriction.AllEnzymes)


def impl_offfamily(name):
    """a generic module and vector class over an enzyme OUTSIDE the theorems' family (ambiguous site, 3' overhang, two
    cuts): structure() returns a text; when that text compiles at all, validation is total on these classes too"""
    import re
    from Bio import Restriction
    from moclo.core import AbstractModule, AbstractVector
    from moclo.regex import DNARegex
    from moclo import errors
    from harness import implutil
    enz = getattr(Restriction, name)
    out = []
    for base in (AbstractModule, AbstractVector):
        cls = type(str("O_%s_%s" % (base.__name__, name)), (base,), {"cutter": enz})
        try:
            cls(implutil.mk_circular("ACGT", "r"))
        except (ValueError, NotImplementedError):
            out.append({"role": base.__name__, "stage": "refused"})       # cutter_check: blunt or unknown cutter
            continue
        try:
            text = cls.structure()
        except Exception as e:  # noqa
            out.append({"role": base.__name__, "stage": "structure", "exc": type(e).__name__, "msg": str(e)[:120]})
            continue
        try:
            DNARegex(text)
        except re.error:
            out.append({"role": base.__name__, "stage": "uncompilable"})
            continue
        site = str(enz.site)
        from Bio.Seq import Seq
        rc = str(Seq(site).reverse_complement())
        for seq in ("ACGTTGCA", "A" * 9 + site + "C" * 30 + rc + "G" * 9, "T" * 7 + rc + "C" * 25 + site + "A" * 5):
            ent = cls(implutil.mk_circular(seq, "r"))
            try:
                v = ent.is_valid()
            except Exception as e:  # noqa
                out.append({"role": base.__name__, "stage": "is_valid", "seq": seq, "exc": type(e).__name__, "msg": str(e)[:120]})
                break
            if v is False:
                try:
                    ent.overhang_start()
                    out.append({"role": base.__name__, "stage": "query", "seq": seq, "exc": None})
                    break
                except errors.InvalidSequence:
                    pass
                except Exception as e:  # noqa
                    out.append({"role": base.__name__, "stage": "query", "seq": seq, "exc": type(e).__name__, "msg": str(e)[:120]})
                    break
        else:
            out.append({"role": base.__name__, "stage": "total"})
    return out


def impl_assembly(case):
    from harness import implutil
    return implutil.run_assembly({"vector": case["vector"], "modules": case["modules"], "typed": False})


# ------------------------------------------------------------ driver side

def run(ctx):
    ctx.rule = ("all concrete kit classes and generic module/vector classes over EVERY enzyme of the family; per class: "
                "random strings over the 30-letter IUPAC x case alphabet of length 1-60 (also shorter than the "
                "structure), an instance of the structure, and single-letter corruptions of it (all 30 letters at "
                "sampled positions); assemblies mixing valid, invalid and corrupted records; non-trivial = a record "
                "that is accepted, or rejected after matching a prefix of the structure (a corrupted instance); besides, for "
                "every Bio.Restriction enzyme OUTSIDE the family (implementation only, no theorem): structure() returns a "
                "text, and where it compiles is_valid() answers and a rejected record's queries raise InvalidSequence")
    rng = ctx.rng
    enzymes = ctx.tables["enzymes"]
    classes = []
    for c in ctx.tables["classes"]:
        if c["abstract"] or c["structure"] is None or c["cutter"] is None or c["role"] is None:
            continue
        classes.append((gens.kit_spec(c), pattern.tokenize(c["structure"], ctx.lettermap)))
    for e in enzymes:
        if len(e["site"]) < 4:
            continue
        for role in ("module", "vector"):
            classes.append((gens.generic_spec(role, e), None))
    cases = []
    nrand = 4 if ctx.quick else 30
    ncorr = 12 if ctx.quick else 60
    for spec, items in classes:
        for _ in range(nrand):
            n = rng.choice([1, 2, 3, 5, 8, 13, 21, 34, 60])
            alpha = rng.choice([recutil.ALPHA30, "ACGT", "ACGTN", "acgtn", recutil.ALPHABET])
            cases.append({"cls": spec, "seq": gens.rand_dna(rng, n, alpha), "ks": [0], "tag": "random"})
        if items is not None:
            inst = gens.instantiate(rng, items, star=(0, 5)) + gens.rand_dna(rng, rng.randrange(0, 4))
        else:
            e = [x for x in enzymes if x["name"] == spec["enzyme"]][0]
            ohs = gens.distinct_overhangs(rng, e, 2) or ["A" * e["ovh"], "C" * e["ovh"]]
            x = (gens.gen_module if spec["role"] == "module" else gens.gen_vector)(rng, e, ohs[0], ohs[1], 3, 3)
            inst = x["seq"] if x else None
        if inst:
            cases.append({"cls": spec, "seq": inst, "ks": [0], "tag": "instance"})
            for _ in range(ncorr):
                p = rng.randrange(0, len(inst))
                ch = rng.choice(recutil.ALPHA30)
                cases.append({"cls": spec, "seq": inst[:p] + ch + inst[p + 1:], "ks": [0], "tag": "corrupted"})
            cases.append({"cls": spec, "seq": inst[:rng.randrange(1, len(inst))], "ks": [0], "tag": "truncated"})
    obs, suspects = C02.eval_typing(ctx, cases)
    q = common.run_impl(ctx, "C17", "impl_queries", cases)
    for c, r in zip(cases, q):
        ctx.count("record:" + c["tag"])
        inp = {"cls": c["cls"], "seq": c["seq"]}
        if r["valid_exc"] or r["valid"] not in (True, False):
            ctx.violations.append({"signature": "C17:is_valid-raises:" + str(r["valid_exc"]),
                                   "what": "is_valid() on %r raised %s" % (c["seq"][:60], r["valid_exc"]), "input": inp})
            continue
        if r["valid"] is False:
            for k, e in r["errs"].items():
                if e is None or not e.startswith("invalid:"):
                    ctx.violations.append({"signature": "C17:query-on-invalid:%s:%s" % (k, e),
                                           "what": "%s on a rejected record gives %s instead of InvalidSequence" % (k, e or r["vals"][k]),
                                           "input": inp})
                    break
        else:
            for k, e in r["errs"].items():
                if e is not None:
                    ctx.violations.append({"signature": "C17:query-on-valid:%s:%s" % (k, e),
                                           "what": "%s on an accepted record raised %s" % (k, e), "input": inp})
                    break
    # enzymes outside the family: no theorem speaks about them; the implementation alone is asked that structure()
    # returns a text and that, when the text compiles, validation is total there as well
    fam = set(e["name"] for e in enzymes)
    others = common.run_impl(ctx, "C17", "list_offfamily", [None], shards=1)[0]
    others = [n for n in others if n not in fam]
    for name, res in zip(others, common.run_impl(ctx, "C17", "impl_offfamily", others)):
        for r in res:
            ctx.evaluations += 1
            ctx.count("off-family:" + r["stage"])
            if r["stage"] in ("structure", "is_valid", "query"):
                ctx.violations.append({"signature": "C17:off-family:%s:%s" % (r["stage"], r.get("exc")),
                                       "what": "generic %s over %s: %s raised %s (%s)" % (r["role"], name, r["stage"], r.get("exc"), r.get("msg")),
                                       "input": {"offfamily": name, "role": r["role"], "seq": r.get("seq")}})
    # assemblies mixing valid and invalid records
    byenz = {e["name"]: e for e in enzymes}
    acases = []
    for _ in range(150 if ctx.quick else 2000):
        enz = byenz[rng.choice(["BsaI", "BpiI", "BsmBI", "SapI", "BtgZI", "HgaI", "BbvI", "BceAI"])]
        ch = gens.gen_chain(rng, enz, rng.choice([1, 2, 3]), tmax=6, bmax=4)
        if ch is None:
            continue
        def spoil(s):
            r = rng.random()
            if r < 0.45:
                return s
            if r < 0.7:
                p = rng.randrange(0, len(s))
                return s[:p] + rng.choice(recutil.ALPHA30) + s[p + 1:]
            if r < 0.85:
                return gens.rand_dna(rng, rng.choice([1, 4, 9, 30]), recutil.ALPHA30)
            return s[:rng.randrange(1, len(s))]
        mods = [spoil(m["seq"]) for m in ch["modules"]]
        if rng.random() < 0.3:
            mods.append(spoil(rng.choice(ch["modules"])["seq"]))
        # valid bystanders that fit nowhere (several unused modules in one warning)
        spare = []
        if rng.random() < 0.35:
            used = {m["up"] for m in ch["modules"]} | {gens.rc(m["up"]) for m in ch["modules"]} | {ch["vector"]["up"], ch["vector"]["down"]}
            for _ in range(rng.choice([2, 2, 3])):
                ohs = gens.distinct_overhangs(rng, enz, 2)
                if ohs and ohs[0] not in used and gens.rc(ohs[0]) not in used:
                    b = gens.gen_module(rng, enz, ohs[0], ohs[1], 3, 2)
                    if b:
                        spare.append(b["seq"])
                        used |= {ohs[0], gens.rc(ohs[0])}
        mods += spare
        rng.shuffle(mods)
        # record identifiers: distinct, all alike, or absent (Biopython's defaults)
        idmode = rng.choice(["distinct", "distinct", "same", "none"])

        def elem(s):
            d = {"cls": gens.generic_spec("module", enz), "seq": s}
            if idmode == "same":
                d["id"] = "Exported"
            elif idmode == "none":
                d["id"] = None
            return d
        acases.append({"enz": enz["name"], "vector": {"cls": gens.generic_spec("vector", enz), "seq": spoil(ch["vector"]["seq"])},
                       "modules": [elem(s) for s in mods]})
    # a kit vector (a levelled EntryVector / CassetteVector / DeviceVector type) receiving modules typed by a plain
    # generic module class of the same enzyme (a direct AbstractModule subclass, no level, no signature), valid or spoiled
    from harness.props import C11
    for c in C11.gen_cases(ctx)[: (24 if ctx.quick else 200)]:
        enz_name = next((k["cutter"]["name"] for k in ctx.tables["classes"] if k["name"] == c["vector"]["cls"]["name"]), None)
        if enz_name is None or enz_name not in byenz:
            continue
        gm = gens.generic_spec("module", byenz[enz_name])
        mods = [{"cls": gm, "seq": (m["seq"] if rng.random() < 0.8 else m["seq"][:-3])} for m in c["modules"]]
        acases.append({"enz": enz_name, "vector": c["vector"], "modules": mods, "tag": "kit-vector-with-generic-modules"})
    aobs = common.run_impl(ctx, "C17", "impl_assembly", acases)
    aterms = []
    for c, o in zip(acases, aobs):
        ctx.evaluations += 1
        ctx.count("assembly-outcome:" + o["out"])
        if o["out"] != "invalid":
            ctx.nontriv([c["vector"]["seq"], [m["seq"] for m in c["modules"]]])
        if o["out"] == "other":
            ctx.violations.append({"signature": "C17:assembly-internal-error:" + str(o.get("exc")),
                                   "what": "assembly ended with %s: %s" % (o.get("exc"), o.get("msg")), "input": c})
        aterms.append(C03.c_raw(ctx, c, o))
    abad = common.coq_eval_cases(ctx, "asm", IMPORTS, aterms, "check_raw", per_file=200)
    for b in abad:
        ctx.disagreements.append({"case": acases[b], "impl": aobs[b], "observable": "outcome of vector.assemble vs Pipeline.assemble_raw",
                                  "model_fn": "Pipeline.assemble_raw"})


def replay(ctx, data):
    v = data.get("violation") or {}
    case = v.get("input") or (data.get("correspondence_disagreements") or [{}])[0].get("case")
    if case and "offfamily" in case:
        res = common.run_impl(ctx, "C17", "impl_offfamily", [case["offfamily"]])[0]
        print("implementation:", res)
        return 1 if any(r["stage"] in ("structure", "is_valid", "query") for r in res) else 0
    if not case:
        print("nothing to replay")
        return 2
    if "vector" in case:
        o = common.run_impl(ctx, "C17", "impl_assembly", [case])[0]
        print("implementation:", {k: o.get(k) for k in ("out", "exc", "msg")})
        return 1 if o["out"] == "other" else 0
    r = common.run_impl(ctx, "C17", "impl_queries", [case])[0]
    print("implementation:", r)
    bad = bool(r["valid_exc"]) or (r["valid"] is False and any(e is None or not e.startswith("invalid:") for e in r["errs"].values()))
    return 1 if bad else 0
