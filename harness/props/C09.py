# coding: utf-8
"""C09 — the product records its provenance and is a complete GenBank record."""
EXTRA_OBLIGATION_FILES = ("Props/C08_src.v", "Props/C09_src.v",)

from harness import srcrun, annot, common, gens, pattern, recutil
from harness.props import C08, C11

LEVEL_NOTE = ("Theorems: the product is the concatenation of the fragments with their feature tables laid out one after "
              "the other; each fragment carries one generated provenance feature over its whole length; in the product "
              "these cover consecutive intervals from 0 to the length (tiling); the stretch under each is a slice of a "
              "rotation of the plasmid it names. PARTIAL: id/name/comment block and the GenBank write/read round trip "
              "are Biopython object-level facts, not modelled; they are decided by the differential oracle (sequence, "
              "circular topology, feature types and locations with strand None = +1 after the round trip). Two-level "
              "assemblies (a product re-used as a module) are run on the implementation and on the model.")

IMPORTS = C08.IMPORTS
run_annot = C08.run_annot


# ------------------------------------------------------------ two levels

def gen_two_level(ctx):
    rng = ctx.rng
    kit = {c["name"]: c for c in ctx.tables["classes"]}
    cases = []
    per = 4 if ctx.quick else 40
    for vname, mname, nname in C11.TRIPLES:
        if mname == "YTKProduct" or vname not in kit:
            continue
        cv, cm, cn = kit[vname], kit[mname], kit[nname]
        vitems = pattern.tokenize(cv["structure"], ctx.lettermap)
        enz, nenz = cv["cutter"], cn["cutter"]
        made = 0
        for _ in range(per * 30):
            if made >= per:
                break
            q = rng.choice([1, 1, 2])
            vseq, vg = gens.instantiate_groups(rng, vitems, star=(0, 8))
            ohs = gens.distinct_overhangs(rng, enz, q - 1) if q > 1 else []
            if ohs is None:
                continue
            chain = [vg[1]] + ohs + [vg[3]]
            if len(set(chain)) != len(chain) or any(gens.rc(a) in chain for a in chain):
                continue
            mods = [gens.gen_module(rng, enz, chain[j], chain[j + 1], rng.randrange(3, 10), rng.randrange(0, 6)) for j in range(q)]
            if any(m is None for m in mods):
                continue
            vseq = vseq + gens.rand_dna(rng, rng.randrange(0, 6))
            if not gens.two_sites(enz, vseq):
                continue
            prod = "".join(m["frag"] for m in mods) + vseq  # only to count the next-level sites roughly
            labels = [0]
            elements = []
            for kind, spec, seq, region in [("module", gens.kit_spec(cm), m["seq"], annot.regions(enz, m, "module")[0]) for m in mods]:
                feats = C08.boundary_features(rng, region, len(seq), labels, rng.randrange(1, 4))
                i = len(elements)
                elements.append({"kind": kind, "cls": spec, "rot": rng.randrange(0, len(seq)), "region": list(region),
                                 "rec": {"seq": seq, "id": "m%d" % i, "name": "n%d" % i, "desc": "d", "features": feats, "refs": None}})
            elements.append({"kind": "vector", "cls": gens.kit_spec(cv), "rot": rng.randrange(0, len(vseq)), "region": [0, 0],
                             "rec": {"seq": vseq, "id": "v%d" % q, "name": "nv", "desc": "d", "features": [], "refs": None}})
            made += 1
            cases.append({"triple": [vname, mname, nname], "q": q, "elements": elements, "order": list(range(q)),
                          "next": gens.kit_spec(cn), "nenz": nenz, "seed": rng.randrange(1 << 30),
                          # a cassette is often named after one of its parts
                          "id": rng.choice(["p1", "p1", "m0"]), "name": "p1"})
    return cases


def run_two_level(case):
    """level 1 with a kit vector embedding the next level's sites; the product re-used as the module of level 2"""
    import random
    from harness import implutil
    ents = annot.build(case["elements"])
    q = case["q"]
    inputs1 = [recutil.dump_record(e.record) for e in ents]
    id1 = case["id"]
    obs1, prod1 = implutil.observe_assembly(ents[q], [ents[i] for i in case["order"]], id=id1, name="p1")
    if prod1 is None:
        return {"obs1": obs1}
    nxt = implutil.get_class(case["next"])
    mod2 = nxt(prod1)
    t = implutil.typed_info(nxt(implutil.mk_circular(str(prod1.seq), "x")))
    if not t["valid"] or t["up"].upper() == t["down"].upper():
        return {"obs1": {"out": "product"}, "skip": "product not usable at the next level"}
    rng = random.Random(case["seed"])
    v2 = gens.gen_vector(rng, case["nenz"], t["down"].upper(), t["up"].upper(), 6, 4)
    if v2 is None:
        return {"obs1": {"out": "product"}, "skip": "no level-2 vector"}
    vcls = implutil.get_class(gens.generic_spec("vector", case["nenz"]))
    vec2 = vcls(implutil.mk_circular(v2["seq"], "v2"))
    in2 = [recutil.dump_record(mod2.record), recutil.dump_record(vec2.record)]
    for d, ent in zip(in2, (mod2, vec2)):
        for f, src in zip(d["features"], ent.record.features):
            if src.type == "source" and "plasmid" in src.qualifiers:
                f["plasmid"] = src.qualifiers["plasmid"]
    src2_inputs = [srcrun.dump_input(mod2), srcrun.dump_input(vec2)]
    obs2, prod2 = implutil.observe_assembly(vec2, [mod2], id="p2", name="p2")
    out = {}
    out.update({"src2_inputs": src2_inputs, "src2_obs": obs2,
                "src2_product": srcrun.dump_product(prod2) if prod2 is not None else None})
    out.update({"obs1": {"out": "product"}, "inputs1": inputs1, "product1": annot.product_view(prod1), "obs2": obs2,
           "inputs2": in2, "v2": {"seq": v2["seq"]}})
    if prod2 is None:
        return out
    view = annot.product_view(prod2)
    out["product2"] = view
    W = out["violations9"] = []
    n = len(view["seq"])
    outer_ids = [id1, "v2"]
    cover = [0] * n
    outer = []
    gen = C08.generated_sources(view["features"], outer_ids)
    if sorted(gen.values()) != sorted(outer_ids):
        W.append({"signature": "C09:two-level:outer-source-missing",
                  "what": "provenance features naming the level-2 inputs %s: found for %s" % (outer_ids, sorted(gen.values()))})
    for i, f in enumerate(view["features"]):
        if i in gen:
            outer.append((gen[i], f))
            for a, b, _ in f["parts"]:
                for x in range(a, b):
                    cover[x % n] += 1
    if any(c != 1 for c in cover):
        W.append({"signature": "C09:two-level:outer-sources-do-not-tile",
                  "what": "provenance features naming the level-2 inputs %s cover the product %s" % ([o[0] for o in outer], cover)})
    spans = {pid: (f["parts"][0][0], f["parts"][-1][1]) for pid, f in outer}
    for i, f in enumerate(view["features"]):
        if "plasmid" not in f or i in gen:
            continue
        pid = f["plasmid"][0] if isinstance(f["plasmid"], list) else f["plasmid"]
        a, b = f["parts"][0][0], f["parts"][-1][1]
        if id1 not in spans or not (spans[id1][0] <= a and b <= spans[id1][1]):
            W.append({"signature": "C09:two-level:inner-source-not-nested",
                      "what": "the level-1 provenance feature of %s [%d,%d) is not nested inside the feature naming %s (%s)"
                              % (pid, a, b, id1, spans.get(id1))})
    return out


def two_level_terms(ctx, case, r):
    """(level-1 elements, product 1) and (level-2 elements, product 2) for the model"""
    terms = []
    q = case["q"]
    e1 = "[" + "; ".join("(%s, %s)" % (gens.c_cls(ctx, case["elements"][i]["cls"]),
                                       recutil.c_record({"seq": r["inputs1"][i]["seq"], "features": r["inputs1"][i]["features"]}))
                         for i in list(range(q)) + [q]) + "]"
    terms.append("(%s, %s)" % (e1, C08.c_product(case, {"product": r["product1"]})))
    if "product2" in r:
        specs = [case["next"], gens.generic_spec("vector", case["nenz"])]
        e2 = "[" + "; ".join("(%s, %s)" % (gens.c_cls(ctx, sp), recutil.c_record({"seq": d["seq"], "features": [
            dict(f, q=(None if f["type"] == "source" and f.get("q") is None else f.get("q"))) for f in d["features"]]}))
                             for sp, d in zip(specs, r["inputs2"])) + "]"
        terms.append("(%s, %s)" % (e2, C08.c_product(case, {"product": r["product2"]}, ids=[case["id"], "v2"])))
    return terms


def run(ctx):
    ctx.rule = ("the annotated assemblies of C08 (chains of 1-3 modules over nine enzymes, random origins, feature tables of "
                "every shape, surplus modules), ids/names from a set of GenBank-legal identifiers including a 15-letter one; "
                "per assembly: metadata, comment, tiling by the provenance features, verbatim occurrence in the named plasmid, "
                "GenBank write + read; plus two-level assemblies for the seven kit vectors that embed the next level's sites "
                "(level 1 with 1-2 annotated inserts, the product re-used as the module of a level-2 assembly): outer "
                "provenance features tile, inner ones are nested; non-trivial = the product inherits a feature")
    C08.run_common(ctx, "C09", "violations9")
    cases = gen_two_level(ctx)
    res = common.run_impl(ctx, "C09", "run_two_level", cases)
    terms, idx = [], []
    for i, (c, r) in enumerate(zip(cases, res)):
        ctx.evaluations += 1
        ctx.count("two-level:" + c["triple"][0])
        if r["obs1"]["out"] != "product":
            ctx.violations.append({"signature": "C09:two-level:level-1-failed", "what": str(r["obs1"]), "input": c})
            continue
        if "skip" in r:
            ctx.count("two-level-skipped:" + r["skip"])
            continue
        if "product2" not in r:
            ctx.violations.append({"signature": "C09:two-level:level-2-failed", "what": str(r["obs2"]), "input": c})
            continue
        ctx.nontriv([e["rec"]["seq"] for e in c["elements"]])
        for v in r["violations9"]:
            ctx.violations.append(dict(v, input=c))
        for t in two_level_terms(ctx, c, r):
            terms.append(t)
            idx.append(i)
    bad = common.coq_eval_cases(ctx, "two", IMPORTS, terms, "check", per_file=100)
    for b in sorted(set(idx[x] for x in bad)):
        ctx.disagreements.append({"case": cases[b], "observable": "sequence and ordered feature table of a level-1 / level-2 product vs "
                                                                   "AnnotPipeline.annot_product", "model_fn": "AnnotPipeline.annot_product"})
    # level 2 through vector.assemble as regenerated from the source: its module is the level-1 product, a record that
    # carries provenance features, a reference list, the generated annotations and comment
    terms, idx = [], []
    for i, (c, r) in enumerate(zip(cases, res)):
        if r.get("src2_inputs") is None or r.get("src2_obs") is None:
            continue
        try:
            terms.append(srcrun.c_case(ctx, (gens.generic_spec("vector", c["nenz"]), r["src2_inputs"][1]),
                                       [(c["next"], r["src2_inputs"][0])], {"id": "p2", "name": "p2"},
                                       r["src2_obs"], r.get("src2_product")))
            idx.append(i)
        except (KeyError, ValueError) as e:
            ctx.count("src-run-skipped:" + str(e)[:40])
    ctx.count("src-runs-level-2", len(terms))
    bad = common.coq_eval_cases(ctx, "srcrun2", srcrun.IMPORTS, terms, "src_run_check", per_file=40)
    for b in bad:
        i = idx[b]
        ctx.disagreements.append({"case": cases[i], "impl": {"obs": res[i].get("src2_obs"), "product": res[i].get("src2_product")},
                                  "observable": "level 2 through vector.assemble as regenerated from the source (run_assemble): "
                                                "whole product record vs the implementation's",
                                  "model_fn": "Gen/Src.v run_assemble"})


def replay(ctx, data):
    v = data.get("violation") or {}
    case = v.get("input") or (data.get("correspondence_disagreements") or [{}])[0].get("case")
    if case and "triple" in case:
        r = common.run_impl(ctx, "C09", "run_two_level", [case])[0]
        print("oracle:", r.get("violations9"), r.get("obs2"))
        return 1 if r.get("violations9") or "product2" not in r else 0
    return C08.replay(ctx, data, "violations9")
