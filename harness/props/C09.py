# coding: utf-8
"""C09 — the product records its provenance and is a complete GenBank record."""
from harness.props import C08

LEVEL_NOTE = ("Theorems: the product is the concatenation of the fragments with their feature tables laid out one after "
              "the other; each fragment carries one generated provenance feature over its whole length; in the product "
              "these cover consecutive intervals from 0 to the length (tiling); the stretch under each is a slice of a "
              "rotation of the plasmid it names. PARTIAL: id/name/comment block and the GenBank write/read round trip "
              "are Biopython object-level facts, not modelled; they are decided by the differential oracle (sequence, "
              "circular topology, feature types and locations with strand None = +1 after the round trip).")

IMPORTS = C08.IMPORTS
run_annot = C08.run_annot


def run(ctx):
    ctx.rule = ("the annotated assemblies of C08 (chains of 1-3 modules over nine enzymes, random origins, feature tables of "
                "every shape), ids/names from a set of GenBank-legal identifiers including a 15-letter one; per assembly: "
                "metadata, comment, tiling by the provenance features, verbatim occurrence in the named plasmid, GenBank "
                "write + read; plus two-level assemblies (thorough); non-trivial = the product inherits a feature")
    C08.run_common(ctx, "C09", "violations9")


def replay(ctx, data):
    return C08.replay(ctx, data, "violations9")
