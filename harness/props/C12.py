# coding: utf-8
"""C12 — strand symmetry: reverse-complemented inputs give the reverse complement."""
EXTRA_OBLIGATION_FILES = ("Props/C12_src.v", "Props/C04_src.v", "Props/C03_src.v",)

from harness import common, gens
from harness.props import C01, C02, C03

LEVEL_NOTE = ("Theorems for every enzyme and every rotation: occurrences of the site mirror under reverse complement; for "
              "ANY circle carrying the site and its reverse complement once each, the generic module (vector) class accepts "
              "it iff it accepts its reverse complement, which then reports the overhangs exchanged and reverse-"
              "complemented and the bodies reverse-complemented (an accepted two-site circle is shown to be a rotation of "
              "the plasmid of the formal definition); end to end from raw plasmids: assembling the reverse complements "
              "of a vector and all its modules (any origins, any order) succeeds with the modules in the opposite order "
              "and yields, up to the letter case of the junctions and the origin, the reverse complement of the product. "
              "Differential part: CircularRecord.reverse_complement() of generated vectors/modules of every cutter "
              "geometry at random origins, typing and assembly compared with the model and with the symmetric expectation, "
              "classes of neoschizomers used first in the same interpreter.")

IMPORTS = C02.IMPORTS


def rc(s):
    return gens.rc(s)


# ------------------------------------------------------------ worker side

def _rc_entity(elem, id_):
    """the entity of the reverse complement, obtained through CircularRecord.reverse_complement()"""
    from harness import implutil
    cls = implutil.get_class(elem["cls"])
    rec = implutil.mk_circular(elem["seq"], id_)
    return cls(rec.reverse_complement(id=True, name=True, description=True)), rec


_ALIVE = []


def impl_strand(case):
    from harness import implutil
    out = {}
    fwd = implutil.run_assembly({"vector": case["vector"], "modules": case["modules"], "typed": True, "prime": case.get("prime")})
    # typed objects of the forward plasmids, already queried, stay alive while their reverse complements are
    # typed and assembled: what a record reports never depends on which other typed objects exist
    for el in [case["vector"]] + list(case["modules"]):
        ent = implutil.mk_entity(el, "fw")
        implutil.typed_info(ent)
        _ALIVE.append(ent)
    if len(_ALIVE) > 300:
        del _ALIVE[:150]
    vector, _ = _rc_entity(case["vector"], "vector")
    modules = [_rc_entity(m, "mod%d" % i)[0] for i, m in enumerate(case["modules"])]
    out["rc_seqs"] = [str(vector.record.seq)] + [str(m.record.seq) for m in modules]
    out["rc_cls"] = type(vector.record).__name__
    obs, _ = implutil.observe_assembly(vector, modules)
    out["fwd"] = fwd
    out["rev"] = obs
    v2, _ = _rc_entity(case["vector"], "vector")
    out["rev_tv"] = implutil.typed_info(v2)
    out["rev_tm"] = [implutil.typed_info(_rc_entity(m, "m")[0]) for m in case["modules"]]
    return out


def impl_offfamily_strand(arg):
    """an enzyme OUTSIDE the theorems' family (ambiguous site, ...) whose generic structures compile: instances of the
    structure with exactly the two recognition sites (one per strand) and one-letter corruptions of them, typed on
    both strands by the implementation alone"""
    import random
    import re
    from Bio import Restriction
    from Bio.Seq import Seq
    from moclo.core import AbstractModule, AbstractVector
    from moclo.regex import DNARegex
    from harness import implutil, pattern
    name, seed, n = arg
    rng = random.Random(seed)
    enz = getattr(Restriction, name)
    lm = dict(DNARegex._lettermap)
    site = str(enz.site)
    rcsite = str(Seq(site).reverse_complement())
    def site_rx(w):
        return re.compile("(?=%s)" % "".join(lm.get(ch, ch) for ch in w), re.I)
    fw, rv = site_rx(site), site_rx(rcsite)
    out = {"compared": 0, "valid": 0, "bad": None}
    # the enzymes the property is about except for the letters of the site: one cut downstream of a non-palindromic
    # site, 5' overhang (for the others structure() is not the structure of a Golden Gate plasmid)
    try:
        size = len(site)
        off, ovh = enz.fst5 - size, -enz.ovhg
        if enz.is_palindromic() or not enz.cut_once() or not enz.is_5overhang() or off < 0 or ovh < 1 \
                or enz.fst3 != off + ovh or enz.elucidate() != site + "N" * off + "^" + "N" * ovh + "_N":
            return out
    except Exception:  # noqa
        return out
    for base in (AbstractModule, AbstractVector):
        cls = type(str("S_%s_%s" % (base.__name__, name)), (base,), {"cutter": enz})
        try:
            cls(implutil.mk_circular("ACGT", "r"))
            text = cls.structure()
            DNARegex(text)
            items = pattern.tokenize(text, lm)
        except Exception:  # noqa  (refused, or outside what compiles: C17's business)
            continue
        for _ in range(n):
            w = gens.instantiate(rng, items, star=(0, 8))
            if rng.random() < 0.3 and w:
                i = rng.randrange(len(w))
                w = w[:i] + rng.choice("ACGT") + w[i + 1:]
            k = rng.randrange(len(w)) if w else 0
            w = w[k:] + w[:k]
            if len(w) < len(site) + 2:
                continue
            d = w + w[:len(site) - 1]
            occ = len(fw.findall(d)) + (len(rv.findall(d)) if rcsite.upper() != site.upper() else 0)
            if occ != 2:
                continue
            rec = implutil.mk_circular(w, "r")
            a = implutil.typed_info(cls(rec))
            b = implutil.typed_info(cls(rec.reverse_complement(id=True, name=True, description=True)))
            out["compared"] += 1
            out["valid"] += 1 if a["valid"] else 0
            what = None
            if a.get("valid_exc") or b.get("valid_exc"):
                continue            # totality is C17's
            if bool(a["valid"]) != bool(b["valid"]):
                what = "valid=%s, its reverse complement valid=%s" % (a["valid"], b["valid"])
            elif a["valid"]:
                r = lambda x: str(Seq(x).reverse_complement())
                if b["up"] != r(a["down"]) or b["down"] != r(a["up"]):
                    what = "overhangs %s/%s, its reverse complement reports %s/%s" % (a["up"], a["down"], b["up"], b["down"])
            if what and out["bad"] is None:
                out["bad"] = {"enzyme": name, "role": base.__name__, "seq": w, "what": what}
    return out


def check_strand(case, o):
    """the symmetric expectation, from the implementation's own forward answers"""
    f, r = o["fwd"], o["rev"]
    if o["rc_cls"] != "CircularRecord":
        return {"signature": "C12:not-circular", "what": "reverse_complement() returned a %s" % o["rc_cls"]}
    elems = [("vector", f["tv"], o["rev_tv"])] + [("module %d" % i, a, b) for i, (a, b) in enumerate(zip(f["tm"], o["rev_tm"]))]
    for name, a, b in elems:
        if bool(a["valid"]) != bool(b["valid"]):
            return {"signature": "C12:validity-differs", "what": "%s: valid=%s, its reverse complement valid=%s" % (name, a["valid"], b["valid"])}
        if not a["valid"]:
            continue
        if b["up"] != rc(a["down"]) or b["down"] != rc(a["up"]):
            return {"signature": "C12:overhangs", "what": "%s reports %s/%s, its reverse complement %s/%s (expected %s/%s)"
                    % (name, a["up"], a["down"], b["up"], b["down"], rc(a["down"]), rc(a["up"]))}
        k = len(a["up"])
        body_a = a["target"][k:]
        body_b = b["target"][k:]
        if body_b != rc(body_a):
            return {"signature": "C12:target-body", "what": "%s: target body %s, reverse complement's %s" % (name, body_a, body_b)}
    if f["out"] != r["out"]:
        return {"signature": "C12:assembly-outcome", "what": "forward assembly %s, reverse-complemented inputs %s %s"
                % (f["out"], r["out"], r.get("oh") or r.get("exc") or "")}
    if f["out"] == "product" and not C01.is_rotation(r["seq"].upper(), rc(f["seq"]).upper()):
        return {"signature": "C12:product-not-reverse-complement",
                "what": "assembling the reverse complements gives %s, the reverse complement of the product is %s" % (r["seq"], rc(f["seq"]))}
    return None


# ------------------------------------------------------------ driver side

def run(ctx):
    ctx.rule = ("one enzyme per distinct (site, offset, overhang) triple; generated complete assemblies (chains of 1-4, "
                "targets 2-10 nt) and assemblies with one module left out, every plasmid read from a random origin (mostly "
                "inside the flanking structure), reverse-complemented through CircularRecord.reverse_complement(); "
                "non-trivial = a complete forward assembly; besides, for the enzymes that miss the family only by the letters "
                "of their site (implementation only, no theorem): instances of the generic structures with exactly two sites "
                "and one-letter corruptions, valid on both strands or neither, overhangs exchanged")
    rng = ctx.rng
    triples = {}
    for e in ctx.tables["enzymes"]:
        triples.setdefault((e["site"], e["off"], e["ovh"]), e)
    cases = []
    per = 6 if ctx.quick else 60
    for key in sorted(triples):
        enz = triples[key]
        if len(enz["site"]) < 4:
            continue
        made = 0
        for _ in range(per * 5):
            if made >= per:
                break
            q = rng.choice([1, 2, 3, 4])
            pal = rng.random() < 0.3
            ch = gens.gen_chain(rng, enz, q, tmin=2, tmax=10, bmax=8, palindrome=pal)
            if ch is None:
                continue
            made += 1
            mods = list(ch["modules"])
            kind = "complete"
            if pal and enz["ovh"] % 2 == 0:
                ctx.count("junction:palindromic")
            if q > 1 and rng.random() < 0.2:
                mods.pop(rng.randrange(0, q))
                kind = "missing"
            rng.shuffle(mods)
            cases.append({"enz": enz["name"], "kind": kind, "prime": gens.siblings(ctx, enz) if made % 2 else [],
                          "vector": {"cls": gens.generic_spec("vector", enz), "seq": gens.reorigin(rng, ch["vector"])},
                          "modules": [{"cls": gens.generic_spec("module", enz), "seq": gens.reorigin(rng, m)} for m in mods]})
    obs = common.run_impl(ctx, "C12", "impl_strand", cases)
    tcases, aterms = [], []
    for c, o in zip(cases, obs):
        ctx.evaluations += 1
        ctx.count("enzyme:" + c["enz"])
        ctx.count("kind:" + c["kind"])
        if o["fwd"]["out"] == "product":
            ctx.nontriv([c["vector"]["seq"], [m["seq"] for m in c["modules"]]])
        v = check_strand(c, o)
        if v:
            ctx.violations.append(dict(v, input=c))
        # the reverse-complement sequences must be the model's rc of the inputs: typing and assembly on them
        rcs = o["rc_seqs"]
        exp = [rc(c["vector"]["seq"])] + [rc(m["seq"]) for m in c["modules"]]
        if rcs != exp:
            ctx.violations.append({"signature": "C12:sequence", "what": "reverse_complement() sequence is not the reverse complement",
                                   "input": c})
            continue
        rcase = {"vector": dict(c["vector"], seq=rcs[0]), "modules": [dict(m, seq=s) for m, s in zip(c["modules"], rcs[1:])]}
        aterms.append(C03.c_raw(ctx, rcase, o["rev"]))
        tcases.append({"cls": c["vector"]["cls"], "seq": rcs[0], "ks": [0], "tag": "rc-vector"})
        for m, s in zip(c["modules"], rcs[1:]):
            tcases.append({"cls": m["cls"], "seq": s, "ks": [0], "tag": "rc-module"})
    C02.eval_typing(ctx, tcases)
    bad = common.coq_eval_cases(ctx, "asm", IMPORTS, aterms, "check_raw", per_file=200)
    for b in bad:
        ctx.disagreements.append({"case": cases[b], "impl": obs[b]["rev"],
                                  "observable": "outcome and product of the assembly of the reverse complements vs Pipeline.assemble_raw",
                                  "model_fn": "Pipeline.assemble_raw"})
    offfamily(ctx)


def offfamily(ctx):
    """strand symmetry asked of the implementation alone for the enzymes the theorems do not cover"""
    fam = set(e["name"] for e in ctx.tables["enzymes"])
    names = [n for n in common.run_impl(ctx, "C17", "list_offfamily", [None], shards=1)[0] if n not in fam]
    args = [(n, ctx.rng.randrange(1 << 30), 150 if ctx.quick else 1500) for n in names]
    for (n, seed, k), o in zip(args, common.run_impl(ctx, "C12", "impl_offfamily_strand", args)):
        ctx.evaluations += o["compared"]
        ctx.count("off-family:compared", o["compared"])
        ctx.count("off-family:valid", o["valid"])
        if o["bad"]:
            ctx.violations.append({"signature": "C12:off-family:" + o["bad"]["what"].split(",")[0].split(" ")[0],
                                   "what": "generic %s over %s on %s: %s" % (o["bad"]["role"], n, o["bad"]["seq"], o["bad"]["what"]),
                                   "input": {"offfamily": [n, seed, k], "found": o["bad"]}})


def replay(ctx, data):
    v0 = data.get("violation") or {}
    if "offfamily" in (v0.get("input") or {}):
        o = common.run_impl(ctx, "C12", "impl_offfamily_strand", [tuple(v0["input"]["offfamily"])])[0]
        print("implementation:", o)
        return 1 if o["bad"] else 0
    v = data.get("violation") or {}
    case = v.get("input") or (data.get("correspondence_disagreements") or [{}])[0].get("case")
    if not case:
        print("nothing to replay")
        return 2
    o = common.run_impl(ctx, "C12", "impl_strand", [case])[0]
    r = check_strand(case, o)
    print("oracle:", r)
    return 1 if r else 0
