# coding: utf-8
"""C07 — assembly is pure: inputs are left untouched, even when it fails."""
EXTRA_OBLIGATION_FILES = ("Props/C07_src.v",)

import copy

from harness import annot, common, gens

LEVEL_NOTE = ("Theorem over all stores and all interruption points for the model of the citation handling (dereference "
              "one assignment at a time, restore on every exit); _assembly.py tied by comparing, call after call over "
              "shared record objects, the citation state after each call and at an injected fault inside fragment "
              "extraction with the model's store; the oracle compares deep snapshots of every input and repeats calls "
              "on fresh copies.")

IMPORTS = """From MV Require Import Base Citations Glue.
Definition cit_eqb (a b : cit) : bool :=
  match a, b with CIdx i, CIdx j => Nat.eqb i j | CRef r, CRef s => Nat.eqb r s | _, _ => false end.
Definition cfeat_eqb (a b : cfeat) : bool := list_eqb cit_eqb (fcits a) (fcits b).
Definition crec_eqb (a b : crec) : bool :=
  list_eqb Nat.eqb (crefs a) (crefs b) && list_eqb cfeat_eqb (cfeats a) (cfeats b).
Definition check (c : list crec * nat * list crec * option (list crec)) : bool :=
  let '(s, fuel, post, mid) := c in
  list_eqb crec_eqb (inputs_after fuel s) post &&
  match mid with Some m => list_eqb crec_eqb (snd (deref_store fuel s)) m | None => true end.
"""

BIG = 100000


def gen_cases(ctx):
    rng = ctx.rng
    enzymes = {e["name"]: e for e in ctx.tables["enzymes"]}
    cases = []
    n = 150 if ctx.quick else 1500
    tries = 0
    while len(cases) < n and tries < 10 * n:
        tries += 1
        enz = enzymes[rng.choice(["BsaI", "BpiI", "BsmBI", "BbsI", "FokI", "BtgZI"])]
        q = rng.choice([1, 2, 2, 3])
        ch = annot.gen_cited_chain(ctx, enz, q, with_refs=rng.random() < 0.8)
        if ch is None:
            continue
        els = ch["elements"]
        vi = q
        # extras: a copy of module 0 (duplicate), a module with a broken site, a bystander, a vector whose overhangs coincide
        dup = copy.deepcopy(els[0]); dup["rec"]["id"] = "dup"
        bad = copy.deepcopy(els[rng.randrange(0, q)]); bad["rec"]["id"] = "bad"
        site = enz["site"]
        s = bad["rec"]["seq"]
        bad["rec"]["seq"] = s[:2] + ("A" if s[2] != "A" else "C") + s[3:]
        bad["rot"] = 0
        extra = {"dup": len(els), "bad": len(els) + 1}
        els += [dup, bad]
        by_oh = gens.distinct_overhangs(rng, enz, 2)
        used = {e["up"] for e in els[:q + 1]} | {gens.rc(e["up"]) for e in els[:q + 1]}
        if by_oh and by_oh[0] not in used and gens.rc(by_oh[0]) not in used:
            b = gens.gen_module(rng, enz, by_oh[0], by_oh[1], 4, 3)
            if b:
                extra["bystander"] = len(els)
                els.append({"kind": "module", "cls": gens.generic_spec("module", enz), "rot": 0,
                            "rec": {"seq": b["seq"], "id": "by", "name": "by", "desc": "d",
                                    "features": [{"type": "gene", "q": 900, "parts": [[0, 3, 1]]}], "refs": None},
                            "up": b["up"], "down": b["down"], "frag": b["frag"]})
        bv = gens.gen_vector(rng, enz, els[vi]["up"], els[vi]["up"], 4, 3)
        if bv:
            extra["badvector"] = len(els)
            els.append({"kind": "vector", "cls": gens.generic_spec("vector", enz), "rot": 0,
                        "rec": {"seq": bv["seq"], "id": "bv", "name": "bv", "desc": "d", "features": [], "refs": None},
                        "up": bv["up"], "down": bv["down"], "frag": bv["frag"]})
        calls = []
        for _ in range(rng.choice([1, 2, 3, 4])):
            kind = rng.choice(["ok", "ok", "missing", "inject", "inject", "duplicate", "invalid-module",
                               "unused", "invalid-vector", "bad-citation", "bad-citation", "repeated-member"])
            mods = list(range(q))
            rng.shuffle(mods)
            call = {"kind": kind, "vector": vi, "mods": mods}
            if kind == "missing":
                j = rng.randrange(0, q)
                call["mods"] = [m for m in mods if m != j]
                call["consumed"] = j
                if not call["mods"]:
                    call["mods"] = [extra["bad"]] if False else mods
                    call["kind"] = "ok"
            elif kind == "inject":
                call["inject"] = rng.randrange(0, q + 1)          # q = the vector's own extraction
            elif kind == "repeated-member":
                # the same module OBJECT listed twice (one module, one dereference)
                call["mods"] = mods + [rng.choice(mods)]
                rng.shuffle(call["mods"])
            elif kind == "duplicate":
                call["mods"] = mods + [extra["dup"]]
                rng.shuffle(call["mods"])
            elif kind == "invalid-module":
                call["mods"] = mods + [extra["bad"]]
                rng.shuffle(call["mods"])
            elif kind == "unused":
                if "bystander" in extra:
                    call["mods"] = mods + [extra["bystander"]]
                    rng.shuffle(call["mods"])
                else:
                    call["kind"] = "ok"
            elif kind == "invalid-vector":
                if "badvector" in extra:
                    call["vector"] = extra["badvector"]
                else:
                    call["kind"] = "ok"
            elif kind == "bad-citation":
                # an out-of-range index in some cited feature of a participating record (applied by the worker)
                cands = [(i, k) for i in mods + [vi] for k, f in enumerate(els[i]["rec"]["features"]) if f.get("cit")]
                multi = [(i, k) for (i, k) in cands if len(els[i]["rec"]["features"][k]["cit"]) >= 2]
                if cands:
                    # mostly a feature citing several references, the fault at a later citation
                    call["corrupt"] = list(rng.choice(multi if multi and rng.random() < 0.75 else cands))
                    ncit = len(els[call["corrupt"][0]]["rec"]["features"][call["corrupt"][1]]["cit"])
                    call["corrupt_at"] = ncit - 1 if rng.random() < 0.6 else rng.randrange(0, ncit)
                else:
                    call["kind"] = "ok"
            calls.append(call)
        cases.append({"enz": enz["name"], "q": q, "elements": els, "calls": calls})
    return cases


# ------------------------------------------------------------ worker side

def _diff(a, b):
    for i, (x, y) in enumerate(zip(a, b)):
        for key in x:
            if x[key] != y.get(key):
                return "input %d: %s changed from %r to %r" % (i, key, str(x[key])[:160], str(y.get(key))[:160])
    return None


def run_calls(case):
    from harness import implutil
    ents = annot.build(case["elements"])
    out = []
    for call in case["calls"]:
        vector = ents[call["vector"]]
        modules = [ents[i] for i in call["mods"]]
        order = call["mods"] + [call["vector"]]
        involved = [ents[i] for i in order]
        restore_cit = None
        if call.get("corrupt"):
            i, k = call["corrupt"]
            f = ents[i].record.features[k]
            restore_cit = (f, list(f.qualifiers["citation"]))
            f.qualifiers["citation"][call.get("corrupt_at", 0) % len(f.qualifiers["citation"])] = "[99]"
        pre_cit = annot.cit_snapshot(involved)
        pre_full = annot.full_snapshot(ents)
        mid = []
        patched = None
        if call.get("inject") is not None:
            j = call["inject"]
            # the j-th consumed module in chain order is element j; q = the vector
            patched = ents[j] if j < case["q"] else vector
            annot.inject(patched, mid, involved)
        obs, prod = implutil.observe_assembly(vector, modules, id="prod", name="prod")
        if patched is not None:
            del patched.target_sequence
        post_cit = annot.cit_snapshot(involved)
        post_full = annot.full_snapshot(ents)
        res = {"kind": call["kind"], "obs": {k: obs.get(k) for k in ("out", "exc", "oh", "ids", "unused", "msg")},
               "pre": pre_cit, "post": post_cit, "mid": mid[0] if mid else None,
               "diff": _diff(pre_full, post_full)}
        if prod is not None:
            res["product"] = annot.product_view(prod)
            # the same call on fresh copies
            fresh = annot.build(case["elements"])
            fobs, fprod = implutil.observe_assembly(fresh[call["vector"]], [fresh[i] for i in call["mods"]],
                                                    id="prod", name="prod")
            res["fresh_same"] = (fprod is not None and annot.product_view(fprod) == res["product"])
            res["fresh_out"] = fobs["out"]
        if restore_cit:
            restore_cit[0].qualifiers["citation"][:] = restore_cit[1]
        out.append(res)
    return out


# ------------------------------------------------------------ driver side

def canon(store):
    return [{"refs": r["refs"], "feats": [{"cits": [annot.parse_cit(c) for c in f["cits"]]} for f in r["feats"]]}
            for r in store]


def has_bad(store):
    return any("bad" in c for r in store for f in r["feats"] for c in f["cits"])


def run(ctx):
    ctx.rule = ("chains of 1-3 generated modules over six enzymes with feature tables, reference lists (shared ids, "
                "repeats) and citation qualifiers; 1-4 consecutive calls on the same record objects mixing success, "
                "unused-module warning, invalid vector, duplicate, invalid module, missing module after j consumed "
                "modules, an exception injected into the j-th fragment extraction (citation state recorded at that "
                "point) and an out-of-range citation; non-trivial = a call over records that carry citations")
    cases = gen_cases(ctx)
    res = common.run_impl(ctx, "C07", "run_calls", cases)
    terms, idx = [], []
    for ci, (c, calls) in enumerate(zip(cases, res)):
        for k, r in enumerate(calls):
            ctx.evaluations += 1
            ctx.count("call:" + r["kind"])
            ctx.count("outcome:" + str(r["obs"]["out"]))
            cited = any(f["cits"] for rec in r["pre"] for f in rec["feats"])
            if cited:
                ctx.nontriv([ci, k])
            inp = {"case": c, "call": k}
            if r["diff"]:
                sig = "C07:input-mutated:" + ("success" if r["obs"]["out"] == "product" else "failure:" + r["kind"])
                ctx.violations.append({"signature": sig, "what": "after a %s call (%s): %s" % (r["kind"], r["obs"]["out"], r["diff"]),
                                       "input": inp})
            if r["obs"]["out"] == "other" and r["kind"] not in ("inject", "bad-citation"):
                ctx.violations.append({"signature": "C07:internal-error:" + ("cited" if cited else "plain"),
                                       "what": "a %s call over %s records ended with %s: %s"
                                               % (r["kind"], "cited" if cited else "uncited", r["obs"]["exc"], r["obs"]["msg"]),
                                       "input": inp})
            if r.get("product") is not None and not r.get("fresh_same"):
                ctx.violations.append({"signature": "C07:repeat-differs",
                                       "what": "call %d of the sequence gives another result than the same call on fresh copies" % k,
                                       "input": inp})
            pre, post = canon(r["pre"]), canon(r["post"])
            mid = canon(r["mid"]) if r["mid"] else None
            if has_bad(post) or (mid and has_bad(mid)):
                ctx.disagreements.append({"case": inp, "observable": "a citation qualifier is neither '[n]' nor a Reference: %s" % r["post"]})
                continue
            if has_bad(pre):
                continue
            early = r["obs"]["out"] in ("invalid", "duplicate")
            fuel = 0 if early else BIG
            terms.append("(%s, %d, %s, %s)" % (annot.store_term(pre), fuel, annot.store_term(post),
                                               "None" if mid is None else "(Some %s)" % annot.store_term(mid)))
            idx.append((ci, k))
    ctx.sample({"calls": [(r["kind"], r["obs"]["out"]) for r in res[0]]})
    bad = common.coq_eval_cases(ctx, "store", IMPORTS, terms, "check", per_file=400)
    for b in bad:
        ci, k = idx[b]
        r = res[ci][k]
        ctx.disagreements.append({"case": {"case": cases[ci], "call": k},
                                  "impl": {"pre": r["pre"], "post": r["post"], "mid": r["mid"], "obs": r["obs"]},
                                  "observable": "citation state of the inputs after the call / at the injected fault vs "
                                                "Citations.inputs_after / deref_store",
                                  "model_fn": "Citations.inputs_after"})


def replay(ctx, data):
    v = data.get("violation") or {}
    inp = v.get("input") or (data.get("correspondence_disagreements") or [{}])[0].get("case")
    if not inp:
        print("nothing to replay")
        return 2
    res = common.run_impl(ctx, "C07", "run_calls", [inp["case"]])[0]
    bad = 0
    for k, r in enumerate(res):
        print("call", k, r["kind"], r["obs"], "diff:", r["diff"], "fresh_same:", r.get("fresh_same"))
        if r["diff"] or (r.get("product") is not None and not r.get("fresh_same")) or \
                (r["obs"]["out"] == "other" and r["kind"] not in ("inject", "bad-citation")):
            bad = 1
    return bad
