# coding: utf-8
"""C05 — a part type accepts exactly the records with its signature overhangs."""
from harness import common, gens, pattern
from harness.props import C02

EXTRA_OBLIGATION_FILES = ("Props/C05_kits.v", "Props/C05_src.v", "Props/C04_structure_src.v", "Props/C04_transcribe_src.v", "Props/C04_texts.v",)
LEVEL_NOTE = ("Theorem for every pair (part pattern, generic pattern) of the common shape with the part's overhang atoms "
              "refining the generic ones, and every record with at most one occurrence of the generic structure: part "
              "valid iff generic valid and the overhangs it reports match the signature; by reflection over the kit table "
              "regenerated from the working tree every signature-derived class has exactly the derived pattern and "
              "refines its generic class. characterize: first valid candidate / none. parts.py tied by comparing "
              "structure() texts with the model's generator for random signatures x all enzymes, verdicts of part and "
              "generic classes on members, siblings, near-misses, degenerate signatures, and characterize results.")

IMPORTS = C02.IMPORTS + """
Definition check_struct (c : pattern * (role * enzyme * pattern * pattern)) : bool :=
  let '(p, (r, e, up, down)) := c in pattern_eqb p (part_structure r e up down).
Definition check_char (c : list cls * list letter * option nat) : bool :=
  let '(cands, s, exp) := c in option_eqb Nat.eqb (find_idx (fun k => is_valid k s true) cands 0) exp.
"""

IUPAC = C02.IUPAC


def sig_letter_ok(sig, text):
    return len(sig) == len(text) and all(t.upper() in (IUPAC[c][:4] if c in IUPAC else c) for c, t in zip(sig, text.upper())
                                         if True)


# ------------------------------------------------------------ worker side

SRC_IMPORTS = """From MV Require Import Base Regex Typing Py PyObj Glue SrcStructRun.
From Coq Require Import String.
"""


def impl_structure(case):
    from harness import implutil
    return implutil.get_class(case["cls"]).structure()


def _sre_items(text):
    """the parse tree CPython's re parser builds for `text`, as pattern items; None outside the fragment"""
    import re
    try:
        import re._parser as sp
        import re._constants as sc
    except ImportError:  # before 3.11
        import sre_parse as sp
        import sre_constants as sc
    tree = sp.parse(text)
    if not (tree.state.flags & re.IGNORECASE):
        return None
    def cls_of(op, av):
        if op is sc.LITERAL:
            return chr(av)
        if op is sc.IN and all(o is sc.LITERAL for o, _ in av):
            return "".join(chr(a) for _, a in av)
        return None
    def walk(sub):
        items = []
        for op, av in sub:
            c = cls_of(op, av)
            if c is not None:
                items.append(["atom", c])
            elif op in (sc.MAX_REPEAT, sc.MIN_REPEAT) and av[0] == 0 and av[1] == sc.MAXREPEAT and len(av[2]) == 1 \
                    and cls_of(*av[2][0]) is not None:
                items.append(["starg" if op is sc.MAX_REPEAT else "starl", cls_of(*av[2][0])])
            elif op is sc.SUBPATTERN and av[0] is not None and not av[1] and not av[2]:
                inner = walk(av[3])
                if inner is None:
                    return None
                items += [["open", ""]] + inner + [["close", ""]]
            else:
                return None
        return items
    return walk(tree)


def impl_transcribe(text):
    from moclo.regex import DNARegex
    out = {"tr": DNARegex._transcribe(text)}
    try:
        out["sre"] = _sre_items(out["tr"])
    except Exception:  # noqa  (a text re cannot parse)
        out["sre"] = None
    try:
        out["compiled"] = DNARegex(text).regex.pattern
    except Exception as e:  # noqa  (an unbalanced random text)
        out["compiled"] = None
        out["exc"] = type(e).__name__
    return out


def impl_structure_pair(pair):
    return [impl_structure(c) for c in pair]


def oracle_iff(case):
    """part valid  <=>  generic valid and its overhangs match the signature (records with a unique generic occurrence)"""
    from harness import implutil
    part = implutil.get_class(case["cls"])
    gen = implutil.get_class(case["generic"])
    seq = case["seq"]
    rx = C02.own_regex(gen.structure())
    n = len(seq)
    d = seq * 2
    occ = [(i, e) for i in range(n) for e in range(n + 1) if rx.fullmatch(d[i:i + e])]
    if len(occ) > 1:
        return {"skip": "not unique"}
    # a parent class (a generic Entry, a parent signature class) is asked before the part class
    implutil.prime_bases(part, seq)
    p = implutil.typed_info(part(implutil.mk_circular(seq, "r")))
    g = implutil.typed_info(gen(implutil.mk_circular(seq, "r")))
    up, down = case["sig"]
    fits = bool(g["valid"]) and sig_letter_ok(up, g["up"]) and sig_letter_ok(down, g["down"])
    if bool(p["valid"]) != fits:
        return {"signature": "C05:part-vs-generic:" + ("accepts" if p["valid"] else "rejects"),
                "what": "%s with signature %s %s a record whose generic class says valid=%s overhangs %s/%s"
                        % (part.__name__, case["sig"], "accepts" if p["valid"] else "rejects", g["valid"], g["up"], g["down"])}
    if p["valid"] and (p["up"], p["down"], p["target"]) != (g["up"], g["down"], g["target"]):
        return {"signature": "C05:part-reports-differently", "what": "part and generic class report different overhangs/target"}
    return None


def oracle_iff_pair(pair):
    """a module part and a vector part with the same enzyme and signature, in one interpreter"""
    return [oracle_iff(c) for c in pair]


def impl_characterize(case):
    from harness import implutil
    base = implutil.get_class(case["base"])
    for sp in case.get("subs", []):          # run-time subclasses, created in this order
        implutil.get_class(sp)
    rec = implutil.mk_circular(case["seq"], "r")
    try:
        ent = base.characterize(rec)
    except RuntimeError:
        return {"cls": None}
    except Exception as e:  # noqa
        return {"exc": type(e).__name__ + ": " + str(e)[:100]}
    return {"cls": type(ent).__name__, "valid": ent.is_valid(),
            "cands": [c.__name__ for c in base.__subclasses__()]}


def accepting(case):
    """which candidate types accept the record, asked one by one"""
    from harness import implutil
    from moclo._utils import isabstract
    base = implutil.get_class(case["base"])
    for sp in case.get("subs", []):
        implutil.get_class(sp)
    cands = list(base.__subclasses__()) + ([] if isabstract(base) else [base])
    return [c.__name__ for c in cands if c(implutil.mk_circular(case["seq"], "r")).is_valid()]


# ------------------------------------------------------------ driver side

def sig_instance(rng, sig):
    return "".join(rng.choice(IUPAC[ch][:4]) for ch in sig)


def run(ctx):
    ctx.rule = ("(a) structure() of parts with random IUPAC signatures (also NNNN, lower case excluded) for both roles x "
                "every enzyme of the family vs the model's generator; (b) all signature-typed kit classes and user "
                "signatures over several enzymes on members, members of sibling types, random overhangs, one-letter "
                "near-misses, each with its generic class; (c) characterize on the kit part bases and run-time bases; "
                "non-trivial = the part class or its generic class accepts the record")
    rng = ctx.rng
    enzymes = ctx.tables["enzymes"]
    byname = {e["name"]: e for e in enzymes}
    # (a) structure texts
    scases = []
    pairs = []
    for e in enzymes:
        if len(e["site"]) < 4:
            continue
        for _ in range(2 if ctx.quick else 8):
            k = e["ovh"]
            sig = ["".join(rng.choice("ACGTNNRYSWKMBDHV") for _ in range(k)) for _ in range(2)]
            if rng.random() < 0.15:
                sig = ["N" * k, "N" * k]
            roles = ["module", "vector"]
            rng.shuffle(roles)
            # a module part and a vector part with the same enzyme and signature, asked in one interpreter
            pairs.append([{"cls": {"kind": "part", "role": r, "enzyme": e["name"], "sig": sig}, "enz": e} for r in roles])
    rng.shuffle(pairs)
    # all enzymes in ONE interpreter, in random order: neoschizomers (same site, another cut) follow each other
    ptexts = common.run_impl(ctx, "C05", "impl_structure_pair", pairs, shards=1)
    scases = [c for pr in pairs for c in pr]
    texts = [t for pt in ptexts for t in pt]
    terms = []
    for c, t in zip(scases, texts):
        ctx.evaluations += 1
        ctx.count("structure-texts")
        sp = c["cls"]
        try:
            items = pattern.tokenize(t, ctx.lettermap)
            terms.append("(%s, (%s, %s, %s, %s))" % (pattern.c_pattern(items), gens.c_role(sp["role"]), pattern.c_enzyme(c["enz"]),
                                                   pattern.c_pattern(pattern.tokenize(sp["sig"][0], ctx.lettermap)),
                                                   pattern.c_pattern(pattern.tokenize(sp["sig"][1], ctx.lettermap))))
        except pattern.Unsupported as e:
            ctx.disagreements.append({"case": sp, "observable": "structure() text not translatable: %s (%s)" % (t, e)})
    bad = common.coq_eval_cases(ctx, "struct", IMPORTS, terms, "check_struct", per_file=300)
    for b in bad:
        ctx.disagreements.append({"case": scases[b]["cls"], "impl": texts[b],
                                  "observable": "AbstractPart.structure() vs Typing.part_structure", "model_fn": "Typing.part_structure"})
    # the same texts against AbstractPart.structure() / the generic structure() as regenerated from the source
    sterms = []
    sidx = []
    for k, (c, t) in enumerate(zip(scases, texts)):
        sp = c["cls"]
        if '"' in t or any(ord(ch) > 126 for ch in t):
            continue
        sterms.append('(%s, %s, "%s"%%string, "%s"%%string, "%s"%%string)' % (
            gens.c_role(sp["role"]), pattern.c_enzyme(c["enz"]), sp["sig"][0], sp["sig"][1], t))
        sidx.append(k)
    bad = common.coq_eval_cases(ctx, "structsrc", SRC_IMPORTS, sterms, "check_struct_src", per_file=300)
    for b in bad:
        k = sidx[b]
        ctx.disagreements.append({"case": scases[k]["cls"], "impl": texts[k],
                                  "observable": "AbstractPart.structure() text vs the text computed by structure() as "
                                                "regenerated from the source", "model_fn": "Gen/Src.v AbstractPart_structure"})
    # DNARegex._transcribe as regenerated from regex.py against the text the implementation compiles: every structure
    # text above, every kit structure, and random texts over pattern letters, lower case and regex punctuation
    ttexts = sorted(set(t for t in texts if isinstance(t, str)) |
                    set(c["structure"] for c in ctx.tables["classes"] if c.get("structure")))
    for _ in range(150 if ctx.quick else 1500):
        ttexts.append("".join(rng.choice("ACGTNRYSWKMBDHVNNNacgtnrykx()()**??^_[]|.+-01 ") for _ in range(rng.randrange(0, 24))))
    ttexts = [t for t in ttexts if '"' not in t and all(32 <= ord(ch) <= 126 for ch in t)]
    tobs = common.run_impl(ctx, "C05", "impl_transcribe", ttexts)
    tterms = []
    for t, o in zip(ttexts, tobs):
        ctx.evaluations += 1
        ctx.count("transcribed-texts")
        if o["compiled"] is not None and o["compiled"] != o["tr"]:
            ctx.violations.append({"signature": "C05:compiled-text-differs", "input": {"pattern": t},
                                   "what": "DNARegex(%r) compiled %r, _transcribe gives %r" % (t, o["compiled"], o["tr"])})
        tterms.append('("%s"%%string, "%s"%%string)' % (t, o["tr"].replace('"', '""')))
    # the model of how `re` reads the compiled text (SrcEquivTranscribe.re_read, which the theorems about the compiled
    # text are stated with) against the parse tree CPython's re parser builds for it
    pterms, pidx = [], []
    for k, (t, o) in enumerate(zip(ttexts, tobs)):
        items = o.get("sre")
        if not items or any(ch not in pattern.CODES for it in items for ch in it[1]):
            continue
        ctx.count("re-parse-trees")
        pterms.append('("%s"%%string, %s)' % (o["tr"], pattern.c_pattern([tuple(it) for it in items])))
        pidx.append(k)
    bad = common.coq_eval_cases(ctx, "reread", SRC_IMPORTS, pterms, "check_re_read", per_file=400)
    for b in bad:
        k = pidx[b]
        ctx.disagreements.append({"case": {"pattern": ttexts[k], "compiled": tobs[k]["tr"]}, "impl": tobs[k]["sre"],
                                  "observable": "the parse tree of re for the compiled text vs SrcEquivTranscribe.re_read",
                                  "model_fn": "SrcEquivTranscribe.re_read"})
    bad = common.coq_eval_cases(ctx, "transcribesrc", SRC_IMPORTS, tterms, "check_transcribe_src", per_file=400)
    for b in bad:
        ctx.disagreements.append({"case": {"pattern": ttexts[b]}, "impl": tobs[b]["tr"],
                                  "observable": "DNARegex._transcribe text vs the text computed by _transcribe as "
                                                "regenerated from the source", "model_fn": "Gen/Src.v DNARegex_transcribe"})
    # (b) verdicts
    subjects = []
    kitparts = [c for c in ctx.tables["classes"] if not c["abstract"] and c["signature"] is not None
                and c["structure_owner"] == "AbstractPart" and c["cutter"] and c["role"]]
    def records_for(enz, role, sig, siblings):
        out = []
        k = enz["ovh"]
        def mk(u, d):
            f = gens.gen_module if role == "module" else gens.gen_vector
            # a module part's group 1 is its upstream signature; a vector part's group 1 is its downstream signature
            x = f(rng, enz, u, d, rng.randrange(2, 8), rng.randrange(0, 6))
            return gens.reorigin(rng, x) if x else None
        u, d = sig_instance(rng, sig[0]), sig_instance(rng, sig[1])
        out.append(("member", mk(u, d)))
        if siblings:
            s2 = rng.choice(siblings)
            out.append(("sibling", mk(sig_instance(rng, s2[0]), sig_instance(rng, s2[1]))))
        out.append(("random", mk(gens.rand_dna(rng, k), gens.rand_dna(rng, k))))
        p = rng.randrange(0, k)
        miss = u[:p] + rng.choice([c for c in "ACGT" if c != u[p]]) + u[p + 1:]
        out.append(("near-miss-up", mk(miss, d)))
        p = rng.randrange(0, k)
        miss = d[:p] + rng.choice([c for c in "ACGT" if c != d[p]]) + d[p + 1:]
        out.append(("near-miss-down", mk(u, miss)))
        return [(t, s) for t, s in out if s]
    for c in kitparts:
        sibs = [x["signature"] for x in kitparts if x["kit"] == c["kit"] and x["role"] == c["role"] and x["name"] != c["name"]]
        for tag, seq in records_for(c["cutter"], c["role"], c["signature"], sibs):
            subjects.append({"cls": gens.kit_spec(c), "generic": gens.generic_spec(c["role"], c["cutter"]),
                             "sig": c["signature"], "seq": seq, "tag": tag})
    for _ in range(30 if ctx.quick else 300):
        enz = byname[rng.choice(["BsaI", "BpiI", "BsmBI", "SapI", "BbvI", "BtgZI", "HgaI"])]
        role = rng.choice(["module", "vector"])
        k = enz["ovh"]
        sig = ["".join(rng.choice("ACGTNNRYSW") for _ in range(k)) for _ in range(2)]
        if rng.random() < 0.15:
            sig = ["N" * k, "N" * k]
        for tag, seq in records_for(enz, role, sig, []):
            subjects.append({"cls": {"kind": "part", "role": role, "enzyme": enz["name"], "sig": sig},
                             "generic": gens.generic_spec(role, enz), "sig": sig, "seq": seq, "tag": "user:" + tag})
    # a part type declared by subclassing a concrete part type and giving it another signature (a secretion-tag
    # variant of a coding part, say): the concrete parent is asked first (prime_bases), the child keeps its own
    for dno in range(12 if ctx.quick else 120):
        enz = byname[rng.choice(["BsaI", "BpiI", "BsmBI", "SapI", "BbvI"])]
        role = rng.choice(["module", "vector"])
        k = enz["ovh"]
        psig = [gens.rand_dna(rng, k), gens.rand_dna(rng, k)]
        csig = [gens.rand_dna(rng, k), gens.rand_dna(rng, k)]
        parent = {"kind": "part", "role": role, "enzyme": enz["name"], "sig": psig, "name": "ParentPart%d" % dno}
        child = {"kind": "sub", "name": "ChildPart%d" % dno, "parent": parent, "sig": csig}
        for tag, seq in records_for(enz, role, csig, [psig]):
            subjects.append({"cls": child, "generic": gens.generic_spec(role, enz), "sig": csig, "seq": seq,
                             "tag": "derived:" + tag})
    # the same signature and enzyme for a module part and a vector part, asked in one interpreter
    pair_subjects = []
    for _ in range(25 if ctx.quick else 250):
        enz = byname[rng.choice(["BsaI", "BpiI", "BsmBI", "SapI", "BbvI", "BtgZI"])]
        k = enz["ovh"]
        sig = ["".join(rng.choice("ACGTNNRY") for _ in range(k)) for _ in range(2)]
        pr = []
        for role in rng.sample(["module", "vector"], 2):
            recs = records_for(enz, role, sig, [])
            tag, seq = recs[0]
            pr.append({"cls": {"kind": "part", "role": role, "enzyme": enz["name"], "sig": sig},
                       "generic": gens.generic_spec(role, enz), "sig": sig, "seq": seq, "tag": "pair:" + tag})
        pair_subjects.append(pr)
    pres = common.run_impl(ctx, "C05", "oracle_iff_pair", pair_subjects)
    for pr, rs in zip(pair_subjects, pres):
        for s, v in zip(pr, rs):
            ctx.evaluations += 1
            ctx.count("record:" + s["tag"])
            if v and "signature" in v:
                ctx.violations.append(dict(v, signature=v["signature"] + ":same-signature-other-role", input={"pair": pr}))
    tcases = []
    for s in subjects:
        n = len(s["seq"])
        ks = [0, rng.randrange(0, n)]
        tcases.append({"cls": s["cls"], "seq": s["seq"], "ks": ks, "tag": s["tag"]})
        tcases.append({"cls": s["generic"], "seq": s["seq"], "ks": ks, "tag": "generic-of:" + s["tag"]})
    obs, suspects = C02.eval_typing(ctx, tcases)
    res = common.run_impl(ctx, "C05", "oracle_iff", subjects)
    for s, v in zip(subjects, res):
        ctx.count("record:" + s["tag"])
        if v and "signature" in v:
            ctx.violations.append(dict(v, input=s))
        elif v and "skip" in v:
            ctx.count("skipped-not-unique")
    # (c) characterize
    ccases = []
    bases = [(c["name"], c["kit"], c["subs"]) for c in ctx.tables["classes"] if c["abstract"] and c["subs"] and c["is_part"]]
    kit = {c["name"]: c for c in ctx.tables["classes"]}
    for bname, bkit, subs in bases:
        concrete = [s for s in subs if s in kit and not kit[s]["abstract"] and kit[s]["structure"]]
        if len(concrete) != len(subs):
            continue                     # a candidate that cannot be instantiated: characterize is not meant for this base
        # an instance of EVERY candidate type (also those that override structure() and share a signature
        # with a sibling), then random picks and junk
        for pick in list(concrete) + [rng.choice(concrete + [None]) for _ in range(3 if ctx.quick else 40)]:
            if pick is None:
                seq = gens.rand_dna(rng, rng.randrange(20, 60))
            else:
                seq = gens.instantiate(rng, pattern.tokenize(kit[pick]["structure"], ctx.lettermap), star=(0, 5)) + gens.rand_dna(rng, rng.randrange(0, 5))
                seq = gens.new_origin(seq, rng.randrange(0, len(seq)))
            ccases.append({"base": {"kind": "kit", "kit": bkit, "name": bname}, "seq": seq, "cands": concrete})
    # run-time candidate types: a concrete part type and a subclass that only changes the cutter (the same fusion
    # sites at the next level), or gives another signature — records of either, and junk
    for rno in range(24 if ctx.quick else 160):
        role = rng.choice(["module", "vector"])
        e1, e2 = rng.sample(["BsaI", "BsmBI", "BpiI", "SapI"], 2)
        if byname[e1]["ovh"] != byname[e2]["ovh"]:
            continue
        k = byname[e1]["ovh"]
        sig = ["".join(rng.choice("ACGT") for _ in range(k)) for _ in range(2)]
        pname, qname = "RtP%d" % rno, "RtQ%d" % rno
        parent = {"kind": "part", "role": role, "enzyme": e1, "sig": sig, "name": pname}
        same_sig = rng.random() < 0.7
        sig2 = sig if same_sig else ["".join(rng.choice("ACGT") for _ in range(k)) for _ in range(2)]
        child = {"kind": "sub", "name": qname, "parent": parent, "cutter": e2, "sig": sig2}
        f = gens.gen_module if role == "module" else gens.gen_vector
        for which in ("parent", "child", "junk"):
            if which == "junk":
                seq = gens.rand_dna(rng, rng.randrange(20, 60))
            else:
                enz, sg = (byname[e1], sig) if which == "parent" else (byname[e2], sig2)
                x = f(rng, enz, sg[0], sg[1], rng.randrange(2, 8), rng.randrange(0, 6))
                if not x:
                    continue
                seq = gens.reorigin(rng, x)
            ccases.append({"base": parent, "subs": [child], "seq": seq, "cands": [qname, pname], "rt": True,
                           "tag": "run-time:%s:%s" % ("same-signature-other-cutter" if same_sig else "other-signature", which)})
    cobs = common.run_impl(ctx, "C05", "impl_characterize", ccases)
    cacc = common.run_impl(ctx, "C05", "accepting", ccases)
    cterms, cidx = [], []
    for c, o, acc in zip(ccases, cobs, cacc):
        if "exc" not in o and ((o["cls"] is None) != (not acc) or (o["cls"] is not None and o["cls"] not in acc)):
            ctx.violations.append({"signature": "C05:characterize:" + ("fails-although-accepted" if o["cls"] is None else "wrong-type"),
                                   "what": "characterize gives %s, the candidate types accepting the record are %s" % (o["cls"], acc),
                                   "input": c})
    for i, (c, o) in enumerate(zip(ccases, cobs)):
        ctx.evaluations += 1
        ctx.count("characterize:" + ("found" if o.get("cls") else "none"))
        if "exc" in o:
            ctx.violations.append({"signature": "C05:characterize-raises", "what": "characterize raised %s" % o["exc"], "input": c})
            continue
        if o["cls"] is not None:
            ctx.nontriv([c["base"]["name"], c["seq"]])
            if o["cls"] not in c["cands"] or not o["valid"]:
                ctx.violations.append({"signature": "C05:characterize-wrong-type",
                                       "what": "characterize returned %s (valid=%s), candidates %s" % (o["cls"], o["valid"], c["cands"]),
                                       "input": c})
                continue
        if c.get("rt"):
            ctx.count("characterize:" + c["tag"])
            continue
        exp = None if o["cls"] is None else c["cands"].index(o["cls"])
        cterms.append("([%s], dna \"%s\", %s)" % ("; ".join('kit_cls "%s"' % n for n in c["cands"]), c["seq"],
                                                 "None" if exp is None else "(Some %d)" % exp))
        cidx.append(i)
    bad = common.coq_eval_cases(ctx, "char", IMPORTS, cterms, "check_char", per_file=100)
    for b in bad:
        i = cidx[b]
        ctx.disagreements.append({"case": ccases[i], "impl": cobs[i], "observable": "type returned by characterize vs PartLemmas.characterize "
                                                                                    "(first valid candidate)", "model_fn": "find_idx is_valid"})
        # is it a violation? the first valid candidate, recomputed with the implementation's own classes
    ctx.sample({"record": subjects[0]["seq"], "sig": subjects[0]["sig"], "tag": subjects[0]["tag"]})


def replay(ctx, data):
    v = data.get("violation") or {}
    case = v.get("input") or (data.get("correspondence_disagreements") or [{}])[0].get("case")
    if not case:
        print("nothing to replay")
        return 2
    if "pair" in case:
        rs = common.run_impl(ctx, "C05", "oracle_iff_pair", [case["pair"]])[0]
        print("oracle:", rs)
        return 1 if any(r and "signature" in r for r in rs) else 0
    if "generic" in case:
        r = common.run_impl(ctx, "C05", "oracle_iff", [case])[0]
        print("oracle:", r)
        return 1 if r and "signature" in r else 0
    if "base" in case:
        print("implementation:", common.run_impl(ctx, "C05", "impl_characterize", [case])[0])
        return 0
    print("case:", case)
    return 0
