# coding: utf-8
"""C16 — DNA pattern search has exact IUPAC, circular and group-extraction semantics."""
EXTRA_OBLIGATION_FILES = ("Props/C16_src.v",)

import itertools

from harness import common, pattern, recutil

LEVEL_NOTE = ("Letter table proved by reflection over the table regenerated from regex.py; leftmost/window/group "
              "theorems for every flat pattern; CPython's re on the flat fragment is modelled by the matcher bt "
              "and tied by differential correspondence (all single-letter cases, all short targets, random patterns).")

IMPORTS = """From MV Require Import Base Regex Glue.
From Coq Require Import String.
Definition sp_eqb (a b : nat * nat) : bool := Nat.eqb (fst a) (fst b) && Nat.eqb (snd a) (snd b).
Fixpoint groups_ok (m : rmatch) (s : list letter) (g : nat) (obs : list ((nat * nat) * string)) : bool :=
  match obs with
  | [] => true
  | (sp, txt) :: r =>
      option_eqb sp_eqb (span m g) (Some sp) && option_eqb word_eqb (group m s g) (Some (dna txt))
      && groups_ok m s (S g) r
  end.
Definition check (c : pattern * string * bool * nat * nat * option (list ((nat * nat) * string))) : bool :=
  let '(p, s, circ, pos, endpos, obs) := c in
  match search p (dna s) circ pos endpos, obs with
  | None, None => true
  | Some m, Some gs => groups_ok m (dna s) 0 gs
  | _, _ => false
  end.
"""

IUPAC = {"A": "A", "C": "C", "G": "G", "T": "T", "R": "AG", "Y": "CT", "S": "CG", "W": "AT", "K": "GT",
         "M": "AC", "B": "CGT", "D": "AGT", "H": "ACT", "V": "ACG", "N": "ACGT"}

# ------------------------------------------------------------ generators


def rand_pattern(rng):
    out = []
    depth = 0
    nitems = rng.randrange(1, 9)
    ngroups = 0
    for _ in range(nitems):
        r = rng.random()
        if r < 0.18 and ngroups < 4:
            out.append("(")
            depth += 1
            ngroups += 1
            continue
        if r < 0.30 and depth > 0:
            out.append(")")
            depth -= 1
            continue
        letter = rng.choice("ACGTACGTNNNRYSWKMBDHV" + "acgt")
        q = rng.random()
        if q < 0.15:
            out.append(letter + "*")
        elif q < 0.28:
            out.append(letter + "*?")
        elif q < 0.33:
            out.append(letter + "+")
        elif q < 0.36:
            out.append(letter + "+?")
        else:
            out.append(letter)
    out += [")"] * depth
    return "".join(out)


def rand_target(rng, n, alphabet):
    return "".join(rng.choice(alphabet) for _ in range(n))


def gen_cases(ctx):
    rng = ctx.rng
    cases = []
    # (a) exhaustive: 15 pattern letters x 30 target letters
    for p in recutil.ALPHABET:
        for x in recutil.ALPHA30:
            cases.append({"kind": "letter", "pat": p, "seq": x, "target": "seq", "linear": True,
                          "pos": 0, "endpos": None})
    # (c) exhaustive short targets over {A,C} for a fixed pattern set, circular and linear
    # the last three start with a literal run that overlaps itself: a failed attempt at one occurrence must
    # not hide the overlapping next one
    fixed = ["AA(NNNN)", "(A)(C*)(A)", "C(A*?)(C)", "(AC)(N*)(CA)", "A(N*?)A(N*)C", "((A)C)",
             "AA(N)C", "ACA(N)CC", "CC(N*?)AC"]
    maxlen = 6 if ctx.quick else 8
    for n in range(1, maxlen + 1):
        for w in itertools.product("AC", repeat=n):
            s = "".join(w)
            for p in fixed:
                for tgt, lin in (("seq", False), ("seq", True)):
                    cases.append({"kind": "short", "pat": p, "seq": s, "target": tgt, "linear": lin,
                                  "pos": 0, "endpos": None})
    # (b) random flat patterns on random targets of every kind
    nrand = 1500 if ctx.quick else 20000
    for _ in range(nrand):
        p = rand_pattern(rng)
        n = rng.choice([1, 2, 3, 4, 5, 6, 8, 10, 12, 16, 24])
        alpha = rng.choice(["ACGT", "ACGT", "AC", "ACGTacgt", recutil.ALPHA30, "ACGTN"])
        s = rand_target(rng, n, alpha)
        tgt = rng.choice(["seq", "seq", "seqrecord", "circular"])
        lin = rng.choice([True, False])
        pos = rng.choice([0, 0, 0, rng.randrange(0, n + 2)])
        endpos = rng.choice([None, None, rng.randrange(0, n + 3)])
        cases.append({"kind": "random", "pat": p, "seq": s, "target": tgt, "linear": lin,
                      "pos": pos, "endpos": endpos})
    return cases


# ------------------------------------------------------------ worker side

def _target(case):
    from Bio.Seq import Seq
    from Bio.SeqRecord import SeqRecord
    from moclo.record import CircularRecord
    if case["target"] == "seq":
        return Seq(case["seq"])
    if case["target"] == "seqrecord":
        return SeqRecord(Seq(case["seq"]), id="x")
    return CircularRecord(Seq(case["seq"]), id="x")


def _search(case):
    from moclo.regex import DNARegex
    rx = DNARegex(case["pat"])
    kw = {"linear": case["linear"], "pos": case["pos"]}
    if case["endpos"] is not None:
        kw["endpos"] = case["endpos"]
    tgt = _target(case)
    return rx, tgt, rx.search(tgt, **kw)


def _text(g):
    return str(getattr(g, "seq", g))


def impl_search(case):
    try:
        rx, tgt, m = _search(case)
    except Exception as e:  # noqa
        return {"exc": type(e).__name__ + ": " + str(e)}
    if m is None:
        return {"match": None}
    ng = rx.regex.groups
    try:
        out = {"match": [[list(m.span(i)), _text(m.group(i))] for i in range(ng + 1)],
               "start": m.start(), "end": m.end()}
    except Exception as e:  # noqa
        return {"exc": type(e).__name__ + ": " + str(e)}
    return out


def oracle_search(case):
    """Model-independent statement of C16 on the implementation."""
    import re
    try:
        rx, tgt, m = _search(case)
    except Exception as e:  # noqa
        return {"signature": "C16:exception", "what": "search raised %s" % type(e).__name__}
    s = case["seq"]
    n = len(s)
    circ = (not case["linear"]) or case["target"] == "circular"
    if case["kind"] == "letter":
        exp = s.upper() in IUPAC[case["pat"]] if s.upper() in "ACGT" else None
        if exp is not None and (m is not None) != exp:
            return {"signature": "C16:letters",
                    "what": "pattern letter %s %s target letter %s" % (case["pat"], "matches" if m else "misses", s)}
    # independent transcription
    own = []
    for ch in case["pat"]:
        if ch in "()*+?":
            own.append(ch)
        elif ch.upper() in IUPAC and ch.isupper() and ch not in "ACGT":
            own.append("[" + IUPAC[ch] + ("N" if ch == "N" else "") + "]")
        else:
            own.append(ch)
    own = re.compile("".join(own), re.I)
    data = s * 2 if circ else s
    stop = min(n, case["endpos"] if case["endpos"] is not None else n)
    first = None
    for i in range(case["pos"], stop):
        mm = own.match(data[i:i + n])
        if mm is not None:
            first = (i, mm)
            break
    if (m is None) != (first is None):
        return {"signature": "C16:leftmost", "what": "search %s although a match %s in range"
                % ("failed" if m is None else "succeeded", "exists" if first else "does not exist")}
    if m is None:
        return None
    if m.start() != first[0]:
        return {"signature": "C16:leftmost", "what": "start %d is not the leftmost matching start %d" % (m.start(), first[0])}
    if m.end() - m.start() > n or (not circ and m.end() > n):
        return {"signature": "C16:window", "what": "match [%d,%d) exceeds one turn / the end" % (m.start(), m.end())}
    for g in range(rx.regex.groups + 1):
        a, b = m.span(g)
        if a < 0:
            continue
        got = _text(m.group(g))
        if got != data[a:b]:
            kind = "straddle" if a < n < b else ("past-end" if a >= n else "inside")
            return {"signature": "C16:group-text:" + kind,
                    "what": "group(%d) of %r on %r (circular=%s) is %r, the matched text is %r"
                            % (g, case["pat"], s, circ, got, data[a:b])}
    return None


# ------------------------------------------------------------ driver side

def c_case(ctx, case, obs):
    items = pattern.tokenize(case["pat"], ctx.lettermap)
    n = len(case["seq"])
    circ = (not case["linear"]) or case["target"] == "circular"
    endpos = n if case["endpos"] is None else min(case["endpos"], n)
    if obs["match"] is None:
        o = "None"
    else:
        o = "(Some [%s])" % "; ".join('((%d, %d), "%s"%%string)' % (sp[0], sp[1], txt) for sp, txt in obs["match"])
    return '(%s, "%s"%%string, %s, %d, %d, %s)' % (
        pattern.c_pattern(items), case["seq"], common.cbool(circ), case["pos"], endpos, o)


def run(ctx):
    ctx.rule = ("(a) all 15 pattern letters x 30 target letters; (b) random flat patterns (IUPAC letters, greedy/lazy "
                "runs, nested groups) on Seq/SeqRecord/CircularRecord, linear and not, random pos/endpos; (c) every "
                "target of length <= 6 (quick) / 8 (thorough) over {A,C} x 6 fixed patterns, circular and linear; "
                "non-trivial = a match was found; distinct by (pattern, target, flags)")
    cases = gen_cases(ctx)
    ctx.exhaustive = True
    obs = common.run_impl(ctx, "C16", "impl_search", cases)
    terms, idx = [], []
    for i, (c, o) in enumerate(zip(cases, obs)):
        ctx.evaluations += 1
        ctx.count("kind:" + c["kind"])
        if "exc" in o:
            ctx.disagreements.append({"case": c, "impl": o, "observable": "search outcome"})
            continue
        if o["match"] is not None:
            ctx.nontriv(c)
            ctx.count("matched")
            a, b = o["match"][0][0]
            if b > len(c["seq"]):
                ctx.count("wraps")
        try:
            terms.append(c_case(ctx, c, o))
            idx.append(i)
        except pattern.Unsupported as e:
            ctx.disagreements.append({"case": c, "observable": "pattern not translatable: %s" % e})
    ctx.sample({"case": cases[-1], "impl": obs[-1]})
    bad = common.coq_eval_cases(ctx, "search", IMPORTS, terms, "check", per_file=500)
    suspects = []
    for b in bad:
        i = idx[b]
        ctx.disagreements.append({"case": cases[i], "impl": obs[i],
                                  "observable": "start/end/span(i)/group(i) of Regex.search vs DNARegex.search",
                                  "model_fn": "Regex.search / Regex.group"})
        suspects.append(cases[i])
    order = suspects + cases
    res = common.run_impl(ctx, "C16", "oracle_search", order)
    for c, v in zip(order, res):
        if v:
            ctx.violations.append(dict(v, input=c))


def replay(ctx, data):
    v = data.get("violation") or {}
    case = v.get("input") or (data.get("correspondence_disagreements") or [{}])[0].get("case")
    if not case:
        print("nothing to replay")
        return 2
    print("implementation:", common.run_impl(ctx, "C16", "impl_search", [case])[0])
    r = common.run_impl(ctx, "C16", "oracle_search", [case])[0]
    print("oracle:", r)
    return 1 if r else 0
