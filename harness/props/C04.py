# coding: utf-8
"""C04 — reported overhangs and fragments are true restriction fragments of the cutter."""
from harness import common, gens, pattern
from harness.props import C02

EXTRA_OBLIGATION_FILES = ("Props/C04_kits.v", "Props/C04_src.v", "Props/C04_structure_src.v", "Props/C04_transcribe_src.v", "Props/C04_texts.v",)
LEVEL_NOTE = ("Theorems for every pattern of the common shape: groups at fixed offsets from the two ends of the match, "
              "adjacent, pieces matching their atoms; when the cutter's site is framed (static check) the starts of groups "
              "1 and 3 are cut positions of the enzyme on the circle; when the sites flank the target, no occurrence of "
              "the site on either strand anywhere in the matched stretch cuts strictly inside the target (the >3-fragment "
              "screen of the linear digest is what guarantees it; modelled digest of Bio.Restriction tied by "
              "correspondence); placeholder + target cover the circle once. By reflection over tables regenerated from "
              "the working tree all 85 kit structures and the generic structures of every enzyme have the shape and are "
              "framed, every cutter is non-palindromic, every kit module class but YTKPart234r (listed) and every generic "
              "module class is flanking. Differential part: typing observables vs the model for all classes with planted "
              "sites, neighbouring structures and mutations at all rotations, and an oracle that recomputes the enzyme's "
              "cut positions by plain word search.")

COMP = gens.COMP


def cuts_of(enz, seq):
    """circular cut positions (index of the first base after the cut on the top strand)"""
    n = len(seq)
    d = (seq + seq).upper()
    site, rsite = enz["site"], gens.rc(enz["site"])
    s = len(site)
    out = set()
    for i in range(n):
        if d.startswith(site, i):
            out.add((i + s + enz["off"]) % n)
        if d.startswith(rsite, i):
            out.add((i - enz["off"] - enz["ovh"]) % n)
    return out


def circ(seq, a, k):
    n = len(seq)
    d = seq * (2 + k // max(n, 1))
    a %= n
    return d[a:a + k]


# ------------------------------------------------------------ generators

def subjects(ctx):
    rng = ctx.rng
    base = C02.typing_subjects(ctx, per_kit=1 if ctx.quick else 3, per_enzyme=1 if ctx.quick else 2,
                               parts=10 if ctx.quick else 60)
    out = []
    enzymes = {e["name"]: e for e in ctx.tables["enzymes"]}
    kit_enz = {c["name"]: c["cutter"] for c in ctx.tables["classes"] if c.get("cutter")}
    structs = [c for c in ctx.tables["classes"] if not c["abstract"] and c["structure"]]
    for spec, seq, tag in base:
        out.append((spec, seq, tag))
        enz = kit_enz.get(spec.get("name")) if spec["kind"] == "kit" else enzymes.get(spec.get("enzyme"))
        if enz is None:
            continue
        n = len(seq)
        # an extra site planted somewhere (inside or outside the match)
        site = rng.choice([enz["site"], gens.rc(enz["site"])])
        p = rng.randrange(0, n)
        out.append((spec, seq[:p] + site + seq[p:], tag + "+site"))
        if len(site) <= n:
            out.append((spec, seq[:p] + site + seq[p + len(site):], tag + "+site-over"))
        # the same in lower / mixed case (a site is a site whatever its spelling)
        p = rng.randrange(0, n)
        low = rng.choice([site.lower(), "".join(c.lower() if rng.random() < 0.5 else c for c in site)])
        out.append((spec, seq[:p] + low + seq[p:], tag + "+site-lowercase"))
        out.append((spec, (seq[:p] + site + seq[p:]).lower(), tag + "+site-all-lowercase"))
        # one letter changed
        p = rng.randrange(0, n)
        out.append((spec, seq[:p] + rng.choice("ACGT") + seq[p + 1:], tag + "+mut"))
        # an instance of the structure of a concrete base class of this class (asked first by the oracle)
        if spec["kind"] == "kit":
            me = [c for c in structs if c["name"] == spec["name"]]
            bases = [c for c in structs if me and c["name"] in me[0]["mro"][1:]]
            if bases:
                b = rng.choice(bases)
                binst = gens.instantiate(rng, pattern.tokenize(b["structure"], ctx.lettermap), star=(1, 4))
                out.append((spec, binst + gens.rand_dna(rng, rng.randrange(0, 4)), tag + "+base-instance"))
        # an instance of a neighbouring structure appended
        other = rng.choice(structs)
        inst = gens.instantiate(rng, pattern.tokenize(other["structure"], ctx.lettermap), star=(0, 3))
        out.append((spec, seq + inst, tag + "+neighbour"))
    return out


# ------------------------------------------------------------ worker side

def oracle_cuts(case):
    """the four clauses of C04, from the reported texts and a plain word search of the cut positions"""
    from harness import implutil
    cls = implutil.get_class(case["cls"])
    enz = case["enz"]
    text = cls.structure().upper()
    flank = text.startswith(enz["site"]) and text.endswith(gens.rc(enz["site"]))
    implutil.prime_bases(cls, case["seq"])
    for k in case["ks"]:
        seq = gens.rotate(case["seq"], k)
        ent = cls(implutil.mk_circular(seq, "r"))
        C02._ALIVE.append(ent)          # wrappers of earlier rotations stay alive while this one is asked
        if len(C02._ALIVE) > 400:
            del C02._ALIVE[:200]
        t = implutil.typed_info(ent)
        if not t["valid"]:
            if any(t.get(f) is not None for f in ("up", "down", "target")):
                return {"signature": "C04:rejected-record-reports-fragments",
                        "what": "%s says the record is not valid, then reports overhangs/target %s/%s for it"
                                % (cls.__name__, t.get("up"), t.get("down")),
                        "input": {"cls": case["cls"], "seq": case["seq"], "ks": [k], "tag": case["tag"], "enz": enz, "role": case["role"]}}
            continue
        n = len(seq)
        cuts = cuts_of(enz, seq)
        up, down, target = t["up"], t["down"], t["target"]
        ovh = enz["ovh"]
        role = case["role"]
        inp = {"cls": case["cls"], "seq": case["seq"], "ks": [k], "tag": case["tag"], "enz": enz, "role": role}
        if role == "module":
            lead, trail = up, down
        else:
            lead, trail = up, down      # vector: its target starts with the upstream overhang, ends before the downstream one
        ok = False
        for p in cuts:
            q = (p + len(target)) % n
            if q in cuts and circ(seq, p, len(target)) == target and circ(seq, p, ovh) == lead and circ(seq, q, ovh) == trail:
                ok = True
                inner = [c for c in cuts if 0 < (c - p) % n < len(target)]
                if role == "module" and flank and inner and len(target) <= n:
                    return {"signature": "C04:cut-inside-target",
                            "what": "%s accepts a record whose target contains a further cut of %s at offset %d"
                                    % (cls.__name__, enz["name"], (inner[0] - p) % n), "input": inp}
                if role == "vector":
                    ph = t.get("placeholder")
                    if ph is None or len(ph) + len(target) != n or circ(seq, q, len(ph)) != ph:
                        kind = "upstream-overhang" if ph is not None and ph[:ovh] == up and up != down else "other"
                        return {"signature": "C04:placeholder:" + kind,
                                "what": "%s: placeholder %r is not the contiguous stretch %r complementary to the target"
                                        % (cls.__name__, ph, circ(seq, q, n - len(target))), "input": inp}
                break
        if not ok:
            return {"signature": "C04:not-a-restriction-fragment",
                    "what": "%s reports overhangs %s/%s and target %s which are not delimited by two cuts of %s (cuts at %s of %d)"
                            % (cls.__name__, up, down, target[:40], enz["name"], sorted(cuts), n), "input": inp}
    return None


# ------------------------------------------------------------ driver side

def run(ctx):
    ctx.rule = ("every concrete kit class, generic classes over one enzyme per geometry and parts with IUPAC signatures, on "
                "an instance of the structure and on variants with an extra site planted (inserted or overwriting), one "
                "letter changed, an instance of another kit structure appended; all rotations of each; non-trivial = the "
                "class accepts the record")
    rng = ctx.rng
    enzymes = {e["name"]: e for e in ctx.tables["enzymes"]}
    kit = {c["name"]: c for c in ctx.tables["classes"]}
    cases = []
    for spec, seq, tag in subjects(ctx):
        n = len(seq)
        if spec["kind"] == "kit":
            enz, role = kit[spec["name"]]["cutter"], kit[spec["name"]]["role"]
        else:
            enz, role = enzymes[spec["enzyme"]], spec["role"]
        ks = list(range(n)) if n <= 70 or not ctx.quick else sorted(rng.sample(range(n), 40))
        cases.append({"cls": spec, "seq": seq, "ks": ks, "tag": tag, "enz": enz, "role": role})
    obs, suspects = C02.eval_typing(ctx, cases)
    ctx.exhaustive = True
    for c, o in zip(cases, obs):
        ctx.count("variant:" + (c["tag"].split("+")[1] if "+" in c["tag"] else "instance"))
        ctx.count("accepted" if o["obs"][0]["valid"] else "rejected")
    res = common.run_impl(ctx, "C04", "oracle_cuts", suspects + cases)
    for v in res:
        if v:
            inp = v.pop("input")
            ctx.violations.append(dict(v, input=inp))


def replay(ctx, data):
    v = data.get("violation") or {}
    case = v.get("input") or (data.get("correspondence_disagreements") or [{}])[0].get("case")
    if not case:
        print("nothing to replay")
        return 2
    if "enz" not in case:
        print("correspondence case:", case.get("cls"))
        return 0
    r = common.run_impl(ctx, "C04", "oracle_cuts", [case])[0]
    print("oracle:", {k: r[k] for k in ("signature", "what")} if r else None)
    return 1 if r else 0
