# coding: utf-8
"""C01 — assembly yields exactly the Golden Gate ligation product."""
EXTRA_OBLIGATION_FILES = ("Props/C01_src.v", "Props/C03_src.v", "Props/C04_src.v",)

from harness import common, gens
from harness.props import C02, C03

LEVEL_NOTE = ("END-TO-END theorem for every enzyme (any site word, cut offset, overhang length), any number of module "
              "plasmids and a vector plasmid of the formal definition carrying the two sites once each, each read from any "
              "origin and given in any order: if the overhangs chain and the starts are clash-free, assemble_raw (typing of "
              "every argument, dictionary, walk) returns exactly o5_1.t_1...o5_q.t_q.o_up.backbone, uses every module and "
              "leaves none; its pieces: canonical acceptance for every framed class, product = chain word of length the "
              "sum of the retained fragments, rotation and order invariance. The implementation is tied by comparing "
              "vector.assemble with the model end to end from raw sequences for every cutter geometry of Bio.Restriction's "
              "family, every rotation of one plasmid at a time, shuffled orders, derived classes overriding the cutter, "
              "neoschizomer classes used first, mirrored overhang sets, and with the closed formula.")

IMPORTS = C02.IMPORTS


def is_rotation(a, b):
    return len(a) == len(b) and (a in b + b)


def gen_cases(ctx):
    rng = ctx.rng
    enzymes = ctx.tables["enzymes"]
    triples = {}
    for e in enzymes:
        triples.setdefault((e["site"], e["off"], e["ovh"]), e)
    cases = []
    per = 3 if ctx.quick else 25
    for key in sorted(triples):
        enz = triples[key]
        if len(enz["site"]) < 4:
            continue          # a 2-nt site cannot be kept out of random sequence
        made = 0
        for _ in range(per * 6):
            if made >= per:
                break
            q = rng.choice([1, 2, 3, 4, 5])
            mirror = rng.random() < 0.15
            ch = gens.gen_chain(rng, enz, q, tmin=2, tmax=12, bmax=10, vup_mirrors_start=mirror)
            if ch is None:
                continue
            made += 1
            elems = [ch["vector"]] + ch["modules"]
            order = list(range(1, q + 1))
            rng.shuffle(order)
            formula = ch["vector"]["up"] + ch["vector"]["body"] + "".join(m["up"] + m["t"] for m in ch["modules"])
            prime = gens.siblings(ctx, enz) if made % 2 else []
            vcls, mcls = gens.generic_spec("vector", enz), gens.generic_spec("module", enz)
            if made % 3 == 0:
                # kits alternate enzymes between levels by deriving a class and overriding its cutter: the derived
                # classes are used after their parents (over another enzyme of the family) have been
                parent = rng.choice([e for e in enzymes if e["site"] != enz["site"]])
                vcls, mcls = gens.sub_cutter_spec("vector", parent, enz), gens.sub_cutter_spec("module", parent, enz)
                prime = prime + [vcls["parent"], mcls["parent"]]
            # every rotation of one element (all elements in thorough), the others at random origins
            targets = range(len(elems)) if not ctx.quick else [rng.randrange(0, len(elems))]
            for e_i in targets:
                n = len(elems[e_i]["seq"])
                ks = range(n) if n <= 60 else sorted(rng.sample(range(n), 60))
                others = [gens.reorigin(rng, x) for x in elems]
                for k in ks:
                    seqs = list(others)
                    seqs[e_i] = gens.rotate(elems[e_i]["seq"], k)
                    cases.append({"enz": enz["name"], "q": q, "expected": ch["expected"], "formula": formula,
                                  "lengths": [len(m["frag"]) for m in ch["modules"]] + [len(ch["vector"]["frag"])],
                                  "elem": e_i, "k": k, "prime": prime, "mirror": mirror,
                                  "vector": {"cls": vcls, "seq": seqs[0]},
                                  "modules": [{"cls": mcls, "seq": seqs[i]} for i in order]})
    return cases


def impl_assembly(case):
    from harness import implutil
    return implutil.run_assembly({"vector": case["vector"], "modules": case["modules"], "typed": False, "prime": case.get("prime")})


def run(ctx):
    ctx.rule = ("one enzyme per distinct (site, offset, overhang) triple of the family (all with a site of >= 4 nt), 3 (quick) / "
                "25 (thorough) well-formed assemblies each: chains of 1-5 modules, targets of 2-12 nt, backbones of 0-10 / "
                "2-12 nt, every plasmid with exactly the two sites; every rotation of one plasmid (each plasmid in turn in "
                "thorough), the others read from random origins, shuffled argument order; every case is a complete assembly")
    cases = gen_cases(ctx)
    obs = common.run_impl(ctx, "C01", "impl_assembly", cases)
    terms = []
    for c, o in zip(cases, obs):
        ctx.evaluations += 1
        ctx.count("enzyme:" + c["enz"])
        ctx.count("chain:%d" % c["q"])
        inp = {k: c[k] for k in ("enz", "q", "expected", "formula", "lengths", "elem", "k", "vector", "modules", "prime")}
        if c["mirror"]:
            ctx.count("overhangs:vector-upstream-mirrors-a-module-start")
        if c["prime"]:
            ctx.count("history:related-classes-used-first")
        if c["vector"]["cls"]["kind"] == "sub":
            ctx.count("classes:derived-with-overridden-cutter")
        if o["out"] != "product":
            ctx.violations.append({"signature": "C01:no-product:" + o["out"],
                                   "what": "a complete well-formed assembly (%s, chain of %d, element %d rotated by %d) ends with %s %s"
                                           % (c["enz"], c["q"], c["elem"], c["k"], o["out"], o.get("oh") or o.get("exc") or ""),
                                   "input": inp})
        else:
            ctx.nontriv([c["vector"]["seq"], [m["seq"] for m in c["modules"]]])
            p = o["seq"]
            if len(p) != sum(c["lengths"]):
                ctx.violations.append({"signature": "C01:product-length",
                                       "what": "product of %d nt, the retained fragments sum to %d" % (len(p), sum(c["lengths"])), "input": inp})
            elif not is_rotation(p.upper(), c["formula"].upper()):
                ctx.violations.append({"signature": "C01:not-the-ligation-product",
                                       "what": "product %s is not a rotation of the documented formula %s (element %d rotated by %d)"
                                               % (p, c["formula"], c["elem"], c["k"]), "input": inp})
            elif o["unused"]:
                ctx.violations.append({"signature": "C01:unused-in-complete-chain", "what": "modules %s reported unused" % o["unused"], "input": inp})
        terms.append(C03.c_raw(ctx, c, o))
    ctx.sample({"enz": cases[0]["enz"], "vector": cases[0]["vector"]["seq"], "modules": [m["seq"] for m in cases[0]["modules"]],
                "product": obs[0].get("seq")})
    bad = common.coq_eval_cases(ctx, "asm", IMPORTS, terms, "check_raw", per_file=250)
    for b in bad:
        ctx.disagreements.append({"case": {k: cases[b][k] for k in ("enz", "q", "elem", "k", "vector", "modules", "expected", "formula", "lengths", "prime")},
                                  "impl": {k: obs[b].get(k) for k in ("out", "seq", "unused", "oh")},
                                  "observable": "outcome and product of vector.assemble vs Pipeline.assemble_raw", "model_fn": "Pipeline.assemble_raw"})


def replay(ctx, data):
    v = data.get("violation") or {}
    case = v.get("input") or (data.get("correspondence_disagreements") or [{}])[0].get("case")
    if not case:
        print("nothing to replay")
        return 2
    o = common.run_impl(ctx, "C01", "impl_assembly", [case])[0]
    print("implementation:", {k: o.get(k) for k in ("out", "seq", "oh", "exc")}, "formula:", case.get("formula"))
    ok = o["out"] == "product" and is_rotation(o["seq"].upper(), case["formula"].upper())
    return 0 if ok else 1
