# coding: utf-8
"""C08 — annotations are inherited faithfully by the assembled plasmid (shared machinery with C09)."""
EXTRA_OBLIGATION_FILES = ("Props/C08_src.v",)

from harness import srcrun, annot, common, gens, recutil
from harness.props import C13

LEVEL_NOTE = ("Theorems over Z coordinates for every record, rotation amount and feature shape: a feature whose image under "
              "the rotation lies inside the retained stretch appears in the fragment and then in the product with the "
              "same type, qualifiers and strands, denoting exactly the same nucleotides; every other product feature is "
              "a generated provenance feature; features overlapping a discarded region have no image. record.py / "
              "modules.py / vectors.py / _assembly.py tied by comparing the product's ordered feature table "
              "(type, label, strand, coordinates) with the model's, and by a label-based denotation oracle.")

IMPORTS = """From MV Require Import Base Record Regex Typing Pipeline Annot AnnotPipeline KitLookup Glue.
From Coq Require Import String.
Open Scope Z_scope.
Definition check (c : list (cls * record) * option record) : bool :=
  option_eqb record_eqb (annot_product (fst c)) (snd c).
"""


# ------------------------------------------------------------ generators

def boundary_features(rng, region, n, labels, count):
    """simple and two-part features placed relative to the retained stretch [a, b) of the canonical layout"""
    a, b = region
    out = []
    for _ in range(count):
        kind = rng.choice(["inside", "inside", "touch-start", "touch-end", "whole-fragment", "cross-start", "cross-end",
                           "outside", "two-part-inside", "two-part-mixed-strands", "one-letter"])
        st = rng.choice([1, -1, 0])
        parts = None
        if b - a < 2:
            continue
        if kind == "inside":
            x = rng.randrange(a, b - 1); y = rng.randrange(x + 1, b + 1); parts = [[x, y, st]]
        elif kind == "touch-start":
            parts = [[a, rng.randrange(a + 1, b + 1), st]]
        elif kind == "touch-end":
            parts = [[rng.randrange(a, b), b, st]]
        elif kind == "whole-fragment":
            parts = [[a, b, st]]
        elif kind == "cross-start" and a >= 1:
            parts = [[rng.randrange(0, a), rng.randrange(a + 1, b + 1), st]]
        elif kind == "cross-end" and b < n:
            parts = [[rng.randrange(a, b), rng.randrange(b + 1, n + 1), st]]
        elif kind == "outside" and a >= 1:
            x = rng.randrange(0, a); parts = [[x, rng.randrange(x + 1, a + 1), st]]
        elif kind == "two-part-inside" and b - a >= 4:
            pts = sorted(rng.sample(range(a, b + 1), 4))
            parts = [[pts[0], pts[1], st], [pts[2], pts[3], st]]
            if st == -1:
                parts.reverse()
        elif kind == "two-part-mixed-strands" and b - a >= 4:
            pts = sorted(rng.sample(range(a, b + 1), 4))
            s1 = rng.choice([1, -1, 0])
            s2 = rng.choice([x for x in (1, -1, 0) if x != s1])
            parts = [[pts[0], pts[1], s1], [pts[2], pts[3], s2]]
            if rng.random() < 0.5:
                parts.reverse()
        elif kind == "one-letter":
            x = rng.randrange(a, b); parts = [[x, x + 1, st]]
        if not parts or any(p[0] >= p[1] for p in parts):
            continue
        typ = "source" if rng.random() < 0.12 else rng.choice(annot.FTYPES)
        out.append({"type": typ, "q": labels[0], "parts": parts, "shape": "boundary:" + kind + (":source" if typ == "source" else "")})
        labels[0] += 1
    return out


def gen_case(ctx, enz, q):
    rng = ctx.rng
    ch = gens.gen_chain(rng, enz, q, tmin=3, tmax=12, bmax=8)
    if ch is None:
        return None
    labels = [0]
    elements = []
    for kind, elem in [("module", m) for m in ch["modules"]] + [("vector", ch["vector"])]:
        region, n = annot.regions(enz, elem, kind)
        feats = boundary_features(rng, region, n, labels, rng.randrange(2, 6))
        for f in C13.gen_features(rng, n, rng.randrange(0, 4)):
            f["q"] = labels[0]
            labels[0] += 1
            feats.append(f)
        if rng.random() < 0.35 and region[1] - region[0] >= 2:
            # a provenance feature left by an earlier level (type source, /plasmid naming a plasmid that is not an input
            # of this assembly) inside the retained stretch: an ordinary input feature of this assembly
            x = rng.randrange(region[0], region[1] - 1)
            y = rng.randrange(x + 1, region[1] + 1)
            feats.append({"type": "source", "q": labels[0], "parts": [[x, y, 0]], "plasmid": "prev%d" % labels[0],
                          "shape": "provenance-of-an-earlier-level"})
            labels[0] += 1
        rng.shuffle(feats)
        i = len(elements)
        rot = gens.pick_origin(rng, elem) if rng.random() < 0.85 else 0
        if rng.random() < 0.2:
            rot = (-region[0]) % n       # the origin exactly on the first nucleotide of the retained stretch
        spec = {"seq": elem["seq"], "id": "%s%d" % (kind[0], i), "name": "n%d" % i, "desc": "d", "features": feats, "refs": None}
        prerot = bool(rot) and rng.random() < 0.4
        if prerot:
            # the record is handed over already read from the other origin (features over the origin written as joins
            # or in the extended form), instead of being rotated by the implementation's own >>
            spec = annot.prerotate(spec, rot, rng)
        elements.append({"kind": kind, "cls": gens.generic_spec(kind, enz), "rec": spec, "rot": rot, "prerot": prerot,
                         "region": list(region)})
    order = list(range(q))
    if rng.random() < 0.3:
        # a surplus module that fits nowhere (UnusedModules warning): supplied, named in the comment, absent from the product
        ohs = gens.distinct_overhangs(rng, enz, 2)
        used = {m["up"] for m in ch["modules"]} | {gens.rc(m["up"]) for m in ch["modules"]} | {ch["vector"]["up"], ch["vector"]["down"]}
        if ohs and ohs[0] not in used and gens.rc(ohs[0]) not in used:
            b = gens.gen_module(rng, enz, ohs[0], ohs[1], 4, 3)
            if b:
                i = len(elements)
                elements.append({"kind": "module", "cls": gens.generic_spec("module", enz), "rot": 0, "region": [0, 0],
                                 "rec": {"seq": b["seq"], "id": "spare%d" % i, "name": "n%d" % i, "desc": "d", "refs": None,
                                         "features": [{"type": "gene", "q": labels[0], "parts": [[1, 5, 1]], "shape": "surplus"}]}})
                order.append(i)
    rng.shuffle(order)
    return {"enz": enz["name"], "q": q, "elements": elements, "order": order, "expected": ch["expected"],
            "second": rng.choice([None, "again", "add", "drop", "rewrap-add", "rewrap-drop"]),
            "id": rng.choice(["prod", "pX_1", "assembly", "A" * 15]), "name": rng.choice(["prod", "name1"])}


# ------------------------------------------------------------ worker side

def _covered(parts, n):
    out = []
    for a, b, s in parts:
        out.append(([x % n for x in range(a, b)], s))
    return out


def _denote(seq, parts):
    comp = gens.COMP
    out = []
    n = len(seq)
    for pos, s in _covered(parts, n):
        w = "".join(seq[x] for x in pos)
        if s == -1:
            w = "".join(comp[c] for c in reversed(w))
        out.append(w)
    return out


def c08_oracle(case, inputs, view):
    """label-based denotation oracle: product features versus the features of the inputs as they are now"""
    V = []
    pseq = view["seq"]
    src = {}
    for ei, (e, inp) in enumerate(zip(case["elements"], inputs)):
        n = len(inp["seq"])
        a, b = e["region"]
        rot = e.get("rot", 0)
        retained = {(x + rot) % n for x in range(a, b)}
        for f in inp["features"]:
            if f["q"] is None or f["parts"] is None:
                continue
            cov = {x for pos, _ in _covered(f["parts"], n) for x in pos}
            # a feature that denotes no nucleotide (start == end) lies neither inside nor across anything: the
            # denotation clauses say nothing about it (the exact table is still compared with the model)
            src[f["q"]] = {"f": f, "seq": inp["seq"], "inside": (cov <= retained) if cov else None, "elem": ei}
    seen = {}
    ids = [e["rec"]["id"] for e in case["elements"]]
    gen = generated_sources(view["features"], ids)
    for fi, f in enumerate(view["features"]):
        if fi in gen:
            continue            # a provenance feature this assembly generated (C09's subject)
        lab = f["q"]
        if lab is None or lab not in src:
            V.append({"signature": "C08:unknown-feature", "what": "product feature %s is not an image of an input feature" % f})
            continue
        seen[lab] = seen.get(lab, 0) + 1
        s = src[lab]
        if s["inside"] is None:
            continue
        if not s["inside"]:
            V.append({"signature": "C08:truncated-or-shifted",
                      "what": "feature L%d %s overlaps a discarded region of element %d but appears in the product as %s"
                              % (lab, s["f"]["parts"], s["elem"], f["parts"])})
            continue
        if f["type"] != s["f"]["type"] or [p[2] for p in f["parts"]] != [p[2] for p in s["f"]["parts"]]:
            V.append({"signature": "C08:type-or-strand", "what": "feature L%d changed type or strand: %s -> %s" % (lab, s["f"], f)})
        elif _denote(pseq, f["parts"]) != _denote(s["seq"], s["f"]["parts"]):
            V.append({"signature": "C08:denotes-other-nucleotides",
                      "what": "feature L%d denotes %s in its source and %s in the product"
                              % (lab, _denote(s["seq"], s["f"]["parts"]), _denote(pseq, f["parts"]))})
    for lab, s in src.items():
        if s["inside"] and seen.get(lab, 0) != 1:
            V.append({"signature": "C08:inherited-feature-missing",
                      "what": "feature L%d %s (%s) lies inside the retained fragment of element %d but appears %d times in the product"
                              % (lab, s["f"]["parts"], s["f"].get("type"), s["elem"], seen.get(lab, 0))})
    return V


def provenance(view, inputs, ids, tag):
    """one generated source feature per retained fragment: they tile the product, each covers a stretch that occurs
    verbatim in the plasmid it names"""
    W = []
    pseq = view["seq"]
    n = len(pseq)
    cover = [0] * n
    gen = generated_sources(view["features"], ids)
    for fi, f in enumerate(view["features"]):
        if "plasmid" not in f:
            continue
        pid = f["plasmid"][0] if isinstance(f["plasmid"], list) else f["plasmid"]
        if fi not in gen and pid not in ids and f.get("q") is not None:
            continue            # a labelled provenance feature inherited from an input (left there by an earlier level)
        for pos, _ in _covered(f["parts"], n):
            for x in pos:
                cover[x] += 1
        if pid not in ids:
            W.append({"signature": "C09:source-names-unknown-plasmid" + tag, "what": "source feature names %r" % pid})
            continue
        text = _denote(pseq, [[p[0], p[1], 1] for p in f["parts"]])
        srcseq = inputs[ids.index(pid)]["seq"]
        if len(text) != 1 or text[0] not in srcseq * 2:
            W.append({"signature": "C09:not-verbatim" + tag,
                      "what": "stretch under the source feature of %s does not occur in that plasmid" % pid})
    if any(c != 1 for c in cover):
        W.append({"signature": "C09:sources-do-not-tile" + tag,
                  "what": "coverage of the product by its source features: %s" % cover})
    return W


def run_annot(case):
    """assemble, dump inputs as given to the entities and the product; evaluate the C08 / C09 oracles"""
    import io
    import Bio.SeqIO
    from harness import implutil
    ents = annot.build(case["elements"])
    q = case["q"]
    inputs = [recutil.dump_record(e.record) for e in ents]
    src_inputs = [srcrun.dump_input(e) for e in ents]
    obs, prod = implutil.observe_assembly(ents[q], [ents[i] for i in case["order"]], id=case["id"], name=case["name"])
    if prod is None:
        return {"obs": obs, "inputs": inputs, "src_inputs": src_inputs, "src_obs": obs}
    view = annot.product_view(prod)
    out = {"obs": {"out": "product"}, "inputs": inputs, "product": view, "violations": [],
           "src_inputs": src_inputs, "src_obs": obs, "src_product": srcrun.dump_product(prod)}
    V = out["violations"]
    pseq = view["seq"]
    V.extend(c08_oracle(case, inputs, view))
    prod2, inputs2 = None, None
    if case.get("second"):
        # the same entities again after their records were annotated further in place: the statement is about the
        # feature tables the records carry when assemble() is called
        from Bio.SeqFeature import SeqFeature, FeatureLocation
        import copy
        lab = 5000
        first_ents = ents
        if case["second"].startswith("rewrap"):
            # the same plasmids re-annotated: NEW records (copies with another feature table) in NEW typed objects,
            # while the objects of the first assembly are still alive and have been used
            ents = [type(e)(copy.deepcopy(e.record)) for e in first_ents]
        for ei, e in enumerate(case["elements"]):
            rec = ents[ei].record
            n = len(rec.seq)
            a, b = e["region"]
            rot = e.get("rot", 0)
            if b - a >= 2:
                x = (a + rot) % n
                if x + 2 <= n:
                    rec.features.append(SeqFeature(FeatureLocation(x, x + 2, 1), type="misc_feature",
                                                   qualifiers={"label": ["L%d" % (lab + ei)]}))
            if case["second"] == "again":
                rec.features.pop()      # the very same inputs a second time
            elif rec.features and case["second"] in ("drop", "rewrap-drop"):
                del rec.features[0]
        inputs2 = [recutil.dump_record(e.record) for e in ents]
        obs2, prod2 = implutil.observe_assembly(ents[q], [ents[i] for i in case["order"]], id=case["id"], name=case["name"])
        if prod2 is None:
            V.append({"signature": "C08:second-call-fails", "what": "second assembly of the same entities ends with %s" % obs2})
        else:
            for v in c08_oracle(case, inputs2, annot.product_view(prod2)):
                V.append(dict(v, signature=v["signature"] + ":after-annotating-in-place"))
    # ---- C09: provenance, metadata, GenBank round trip
    W = out["violations9"] = []
    n = len(pseq)
    if view["cls"] != "CircularRecord" or (view["topology"] or "").lower() != "circular":
        W.append({"signature": "C09:not-circular", "what": "product is %s with topology %r" % (view["cls"], view["topology"])})
    if view["id"] != case["id"] or view["name"] != case["name"]:
        W.append({"signature": "C09:id-name", "what": "product id/name %r/%r, requested %r/%r" % (view["id"], view["name"], case["id"], case["name"])})
    comment = "\n".join(view["comment"] or []) if isinstance(view["comment"], list) else str(view["comment"])
    ids = [e["rec"]["id"] for e in case["elements"]]
    if ids[q] not in comment or any(ids[i] not in comment for i in case["order"]):
        W.append({"signature": "C09:comment", "what": "comment %r does not name the vector and every supplied module" % comment})
    W.extend(provenance(view, inputs, ids, ""))
    if case.get("second") and prod2 is not None:
        W.extend(provenance(annot.product_view(prod2), inputs2, ids, ":second-assembly-of-the-same-records"))
    try:
        buf = io.StringIO()
        Bio.SeqIO.write(prod, buf, "genbank")
        back = Bio.SeqIO.read(io.StringIO(buf.getvalue()), "genbank")
        def table(r):
            return sorted((f.type, [(int(p.start), int(p.end), 1 if p.strand is None else p.strand) for p in f.location.parts])
                          for f in r.features)
        if str(back.seq).upper() != pseq.upper():
            W.append({"signature": "C09:genbank-sequence", "what": "sequence differs after a GenBank round trip"})
        elif (back.annotations.get("topology") or "").lower() != "circular":
            W.append({"signature": "C09:genbank-topology", "what": "topology %r after a GenBank round trip" % back.annotations.get("topology")})
        elif table(back) != table(prod):
            W.append({"signature": "C09:genbank-features", "what": "feature types/locations differ after a GenBank round trip"})
    except Exception as e:  # noqa
        W.append({"signature": "C09:genbank-write-read-raises", "what": "%s: %s" % (type(e).__name__, str(e)[:200])})
    return out


# ------------------------------------------------------------ driver side

def c_elements(ctx, case, res):
    q = case["q"]
    chain = list(range(q)) + [q]
    es = []
    for i in chain:
        inp = res["inputs"][i]
        es.append("(%s, %s)" % (gens.c_cls(ctx, case["elements"][i]["cls"]), recutil.c_record({"seq": inp["seq"], "features": [
            f for f in inp["features"] if f["parts"] is not None]})))
    return "[" + "; ".join(es) + "]"


def generated_sources(features, ids):
    """indices of the provenance features this assembly generated: per supplied plasmid id, the widest feature naming
    it (an inherited provenance feature of an earlier level may name the same id; it lies inside)"""
    best = {}
    for i, f in enumerate(features):
        if "plasmid" not in f:
            continue
        pid = f["plasmid"][0] if isinstance(f["plasmid"], list) else f["plasmid"]
        if pid not in ids:
            continue
        width = sum(b - a for a, b, _ in f["parts"])
        if pid not in best or width >= best[pid][0]:
            best[pid] = (width, i)
    return {i: pid for pid, (_, i) in best.items()}


def c_product(case, res, ids=None):
    view = res["product"]
    q = case["q"]
    ids = ids or [case["elements"][i]["rec"]["id"] for i in list(range(q)) + [q]]
    gen = generated_sources(view["features"], ids)
    feats = []
    for i, f in enumerate(view["features"]):
        g = dict(f)
        if "plasmid" in f:
            # provenance features inherited from an earlier level keep the (empty) label they had in the input
            g["q"] = 900 + ids.index(gen[i]) if i in gen else f.get("q")
        feats.append(g)
    return "(Some %s)" % recutil.c_record({"seq": view["seq"], "features": feats})


def gen_cases(ctx):
    rng = ctx.rng
    enzymes = {e["name"]: e for e in ctx.tables["enzymes"]}
    cases = []
    n = 150 if ctx.quick else 2000
    names = ["BsaI", "BpiI", "BsmBI", "SapI", "BtgZI", "FokI", "AarI", "HgaI", "BbvI"]
    tries = 0
    while len(cases) < n and tries < 5 * n:
        tries += 1
        c = gen_case(ctx, enzymes[rng.choice(names)], rng.choice([1, 2, 2, 3]))
        if c:
            cases.append(c)
    return cases


def run_common(ctx, prop, vkey):
    cases = gen_cases(ctx)
    res = common.run_impl(ctx, "C08", "run_annot", cases)
    terms, idx = [], []
    for i, (c, r) in enumerate(zip(cases, res)):
        ctx.evaluations += 1
        ctx.count("chain:%d" % c["q"])
        if c.get("second"):
            ctx.count("history:second-call-after-annotating-in-place:" + c["second"])
        for e in c["elements"]:
            if e.get("prerot"):
                ctx.count("input:origin-moved-by-the-harness")
            for f in e["rec"]["features"]:
                ctx.count("shape:" + f.get("shape", "?"))
        if r["obs"]["out"] != "product":
            ctx.violations.append({"signature": "%s:assembly-failed" % prop, "what": "annotated assembly ended with %s" % r["obs"], "input": c})
            continue
        inherited = sum(1 for f in r["product"]["features"] if "plasmid" not in f)
        ctx.count("inherited-features", inherited)
        if inherited:
            ctx.nontriv([c["enz"], [e["rec"]["seq"] for e in c["elements"]], [e["rec"]["features"] for e in c["elements"]]])
        for v in r[vkey]:
            ctx.violations.append(dict(v, input=c))
        terms.append("(%s, %s)" % (c_elements(ctx, c, r), c_product(c, r)))
        idx.append(i)
    ctx.sample({"elements": [{"seq": e["rec"]["seq"], "features": e["rec"]["features"][:2]} for e in cases[0]["elements"]],
                "product_features": res[0].get("product", {}).get("features", [])[:4]})
    bad = common.coq_eval_cases(ctx, "annot", IMPORTS, terms, "check", per_file=150)
    for b in bad:
        i = idx[b]
        ctx.disagreements.append({"case": cases[i], "impl": res[i]["product"]["features"],
                                  "observable": "sequence and ordered feature table (type, label, strand, coordinates) of the product "
                                                "vs AnnotPipeline.annot_product", "model_fn": "AnnotPipeline.annot_product"})
    # the same calls through vector.assemble as regenerated from the source
    terms, idx = [], []
    for i, (c, r) in enumerate(zip(cases, res)):
        if r.get("src_inputs") is None:
            continue
        q = c["q"]
        try:
            terms.append(srcrun.c_case(ctx, (c["elements"][q]["cls"], r["src_inputs"][q]),
                                       [(c["elements"][k]["cls"], r["src_inputs"][k]) for k in c["order"]],
                                       {"id": c["id"], "name": c["name"]}, r["src_obs"], r.get("src_product")))
            idx.append(i)
        except (KeyError, ValueError) as e:
            ctx.count("src-run-skipped:" + str(e)[:40])
    ctx.count("src-runs", len(terms))
    bad = common.coq_eval_cases(ctx, "srcrun", srcrun.IMPORTS, terms, "src_run_check", per_file=40)
    for b in bad:
        i = idx[b]
        ctx.disagreements.append({"case": cases[i], "impl": {"obs": res[i].get("src_obs"), "product": res[i].get("src_product")},
                                  "observable": "vector.assemble as regenerated from the source (run_assemble): product record "
                                                "(sequence, ids, ordered feature table, references, annotations, comment), unused "
                                                "modules or exception class, inputs unchanged",
                                  "model_fn": "Gen/Src.v run_assemble"})


def run(ctx):
    ctx.rule = ("chains of 1-3 generated modules over nine enzymes; per record 2-5 features placed relative to the retained "
                "stretch (inside, touching either end, the whole stretch, crossing either end, outside, two-part, one letter) "
                "and 0-3 features of the C13 shapes (compound, origin-spanning join and extended forms, whole-length, source "
                "types), either strand; every record read from a random origin (85%: inside the flanking structure); "
                "shuffled argument order; every call also run through vector.assemble as regenerated from the source and its "
                "whole product record compared; non-trivial = the product inherits at least one feature")
    run_common(ctx, "C08", "violations")


def replay(ctx, data, vkey="violations"):
    v = data.get("violation") or {}
    case = v.get("input") or (data.get("correspondence_disagreements") or [{}])[0].get("case")
    if not case:
        print("nothing to replay")
        return 2
    r = common.run_impl(ctx, "C08", "run_annot", [case])[0]
    print("oracle:", r.get(vkey), r["obs"])
    return 1 if r.get(vkey) or r["obs"]["out"] != "product" else 0
