# coding: utf-8
"""C13 — rotation of a circular record is a lossless group action."""
EXTRA_OBLIGATION_FILES = ("Props/C13_src.v",)

from harness import common, recutil

LEVEL_NOTE = ("Theorems over polymorphic lists and Z coordinates for all lengths, all k in Z, all "
              "feature shapes; record.py >>/<< tied by differential correspondence on the cases counted here.")

IMPORTS = """From MV Require Import Base Record Glue.
From Coq Require Import String.
Open Scope Z_scope.
Definition apply_op (r : record) (op : bool * Z) : record :=
  if fst op then rot_record (snd op) r else rotl_record (snd op) r.
Definition check (c : record * list (bool * Z) * record) : bool :=
  let '(r, ops, obs) := c in record_eqb (fold_left apply_op ops r) obs.
"""


# ------------------------------------------------------------ generators

def gen_features(rng, n, count):
    feats = []
    for _ in range(count):
        shape = rng.choice(["simple", "simple", "compound", "span", "extended", "whole_source",
                            "whole", "source_part", "source_gappy", "source_span", "single", "zero_length"])
        st = rng.choice([1, -1, 0])
        typ = rng.choice(["misc_feature", "CDS", "gene", "promoter"])
        parts = None
        if shape == "simple" and n >= 1:
            a = rng.randrange(0, n)
            b = rng.randrange(a + 1, n + 1)
            parts = [[a, b, st]]
        elif shape == "single":
            a = rng.randrange(0, n)
            parts = [[a, a + 1, st]]
        elif shape == "zero_length":
            # a site between two letters (GenBank "9^10"): start == end, anywhere from 0 to n
            a = rng.randrange(0, n + 1)
            parts = [[a, a, st]]
        elif shape == "compound" and n >= 3:
            k = rng.choice([2, 3])
            pts = sorted(rng.sample(range(0, n + 1), min(2 * k, n + 1)))
            pts = pts[: 2 * (len(pts) // 2)]
            parts = [[pts[i], pts[i + 1], st] for i in range(0, len(pts), 2) if pts[i] < pts[i + 1]]
            if rng.random() < 0.3:
                parts.reverse()
            if rng.random() < 0.2:
                parts = [[a, b, rng.choice([1, -1, 0])] for a, b, _ in parts]
        elif shape == "span" and n >= 2:
            a = rng.randrange(1, n)
            b = rng.randrange(1, a + 1)
            parts = [[a, n, st], [0, b, st]]
            if st == -1:
                parts.reverse()
        elif shape == "source_span" and n >= 3:
            typ = "source"
            a = rng.randrange(2, n)
            b = rng.randrange(1, a)
            parts = [[a, n, st], [0, b, st]]
            if st == -1:
                parts.reverse()
        elif shape == "extended" and n >= 2:
            a = rng.randrange(1, n)
            b = rng.randrange(n, a + n + 1)
            parts = [[a, b, st]]
        elif shape == "whole_source":
            typ, parts = "source", [[0, n, st]]
        elif shape == "whole":
            parts = [[0, n, st]]
        elif shape == "source_part" and n >= 2:
            typ = "source"
            a = rng.randrange(0, n - 1)
            parts = [[a, rng.randrange(a + 1, n), st]]
        elif shape == "source_gappy" and n >= 4:
            typ = "source"
            a = rng.randrange(1, n - 2)
            b = rng.randrange(a + 1, n - 1)
            parts = [[0, a, st], [b, n, st]]
        if not parts or len(parts) == 0:
            continue
        feats.append({"type": typ, "q": len(feats), "parts": parts, "shape": shape})
    return feats


def gen_record(rng, n, nfeat, ntracks, distinct=True):
    if distinct and n <= 30:
        seq = "".join(rng.sample(recutil.ALPHA30, n))
    else:
        seq = "".join(rng.choice(recutil.ALPHA30) for _ in range(n))
    tracks = []
    for t in range(ntracks):
        tracks.append([rng.randrange(0, 50) if t else i for i in range(n)])
    return {"seq": seq, "id": "id%d" % n, "name": "nm%d" % n, "desc": "desc",
            "features": gen_features(rng, n, nfeat), "tracks": tracks,
            "ann": {"topology": "circular", "note": "x%d" % n}, "dbxrefs": ["db:%d" % n]}


def gen_cases(ctx):
    rng = ctx.rng
    cases = []
    maxn = 8 if ctx.quick else 12
    for n in range(1, maxn + 1):
        for k in range(-2 * n, 2 * n + 1):
            rec = gen_record(rng, n, rng.choice([2, 3, 4]), rng.choice([1, 2]))
            cases.append({"rec": rec, "ops": [[rng.choice([">>", ">>", "<<"]), k]]})
    ctx.exhaustive = True  # every length 1..maxn x every k in [-2n, 2n]
    # periodic words: a rotation by a multiple of the period leaves the letters unchanged
    # but must still move features and per-letter annotations
    for _ in range(60 if ctx.quick else 600):
        unit = "".join(rng.choice(recutil.ALPHA30) for _ in range(rng.choice([1, 2, 3, 4])))
        reps = rng.randrange(2, 6)
        n = len(unit) * reps
        rec = gen_record(rng, n, rng.choice([1, 2, 3]), rng.choice([1, 2]))
        rec["seq"] = unit * reps
        k = len(unit) * rng.randrange(1, reps) + rng.choice([0, 0, n, -n])
        cases.append({"rec": rec, "ops": [[rng.choice([">>", "<<"]), k]] + ([[">>", len(unit)]] if rng.random() < 0.3 else [])})
    nrand = 250 if ctx.quick else 2500
    for _ in range(nrand):
        n = rng.randrange(1, 61)
        rec = gen_record(rng, n, rng.randrange(0, 6), rng.choice([0, 1, 2]), distinct=rng.random() < 0.7)
        nops = rng.choice([1, 1, 2, 3, 4])
        ops = [[rng.choice([">>", "<<"]), rng.choice([rng.randrange(-3 * n, 3 * n + 1), rng.randrange(-1000, 1000),
                                                     n * rng.randrange(-3, 4)])] for _ in range(nops)]
        cases.append({"rec": rec, "ops": ops})
    return cases


# ------------------------------------------------------------ worker side

def _apply(rec, ops):
    for op, k in ops:
        rec = (rec >> k) if op == ">>" else (rec << k)
    return rec


def impl_rotate(case):
    rec = recutil.mk_record(case["rec"])
    try:
        out = _apply(rec, case["ops"])
    except Exception as e:  # noqa
        return {"exc": type(e).__name__ + ": " + str(e)}
    return recutil.dump_record(out)


def _rot(s, k):
    n = len(s)
    k %= n
    return s[n - k:] + s[:n - k]


def oracle_rotate(case):
    """Model-independent statement of C13 on the implementation."""
    from moclo.record import CircularRecord
    rec = recutil.mk_record(case["rec"])
    before = recutil.deep_snapshot(rec)
    n = len(rec)
    K = sum(k if op == ">>" else -k for op, k in case["ops"])
    try:
        out = _apply(rec, case["ops"])
    except Exception as e:  # noqa
        return {"signature": "C13:exception", "what": "rotation raised %s" % type(e).__name__}
    if not isinstance(out, CircularRecord):
        return {"signature": "C13:type", "what": "result is not a CircularRecord"}
    s0, s1 = str(rec.seq), str(out.seq)
    if s1 != _rot(s0, K):
        return {"signature": "C13:sequence", "what": "sequence not rotated right by k: %s -> %s (k=%d)" % (s0, s1, K)}
    for key, v in rec.letter_annotations.items():
        if list(out.letter_annotations.get(key, [])) != _rot(list(v), K):
            return {"signature": "C13:letter-annotations",
                    "what": "per-letter annotation %r not attached to the same letters after >> %d" % (key, K % n)}
    if (out.id, out.name, out.description, out.dbxrefs, repr(out.annotations)) != \
            (rec.id, rec.name, rec.description, rec.dbxrefs, repr(rec.annotations)):
        return {"signature": "C13:metadata", "what": "identifiers/annotations not carried over"}
    if len(out.features) != len(rec.features):
        return {"signature": "C13:feature-count", "what": "number of features changed"}
    for f0, f1 in zip(rec.features, out.features):
        if f0.type != f1.type or f0.qualifiers != f1.qualifiers or f0.id != f1.id:
            return {"signature": "C13:feature-meta", "what": "feature type/qualifiers changed"}
        p0, p1 = f0.location.parts, f1.location.parts
        if len(p0) != len(p1):
            return {"signature": "C13:feature-parts", "what": "number of parts changed"}
        for a, b in zip(p0, p1):
            if a.strand != b.strand:
                return {"signature": "C13:feature-strand", "what": "strand changed"}
            c0 = [x % n for x in range(int(a.start), int(a.end))]
            c1 = [x % n for x in range(int(b.start), int(b.end))]
            whole = sorted(c0) == list(range(n)) and len(p0) == 1
            if whole:
                ok = sorted(c1) == list(range(n))
            else:
                ok = c1 == [(x + K) % n for x in c0]
            if not ok:
                shape = "source-compound-whole-span" if (f0.type == "source" and len(p0) > 1) else "general"
                return {"signature": "C13:feature-denotation:" + shape,
                        "what": "feature %s %r denotes other nucleotides after rotation by %d: %r"
                                % (f0.type, f0.location, K % n, f1.location)}
    if recutil.deep_snapshot(rec) != before:
        return {"signature": "C13:input-mutated", "what": "rotation modified its operand"}
    # the record at the time of the call is the input: rotate, edit the record through the ordinary SeqRecord
    # API, rotate again by the same amount — the second result must be the rotation of the edited record
    import copy
    from Bio.SeqFeature import FeatureLocation
    op, k = case["ops"][0]
    rec.id = rec.id + "-edited"
    rec.name = "edited"
    rec.annotations["note"] = "edited after the first rotation"
    if rec.features:
        f = rec.features[0]
        a = (int(f.location.start) + 1) % n
        f.location = FeatureLocation(a, min(n, a + 1), strand=-1)
        f.qualifiers["label"] = ["moved"]
    for key in list(rec.letter_annotations):
        vals = list(rec.letter_annotations[key])
        rec.letter_annotations[key] = vals[1:] + vals[:1]
    fresh = recutil.mk_record(recutil.to_json(rec)) if hasattr(recutil, "to_json") else copy.deepcopy(rec)
    try:
        second = _apply(rec, [(op, k)])
        expect = _apply(fresh, [(op, k)])
    except Exception as e:  # noqa
        return {"signature": "C13:exception-after-edit", "what": "rotation of an edited record raised %s" % type(e).__name__}
    if recutil.deep_snapshot(second) != recutil.deep_snapshot(expect):
        return {"signature": "C13:rotation-after-edit",
                "what": "after rotating by %d, editing the record (id, annotations, first feature, tracks) and rotating "
                        "again by %d the result is not the rotation of the edited record" % (k, k)}
    return None


# ------------------------------------------------------------ driver side

def c_case(case, obs):
    ops = "; ".join("(%s, %d)" % ("true" if op == ">>" else "false", k) for op, k in case["ops"])
    return "(%s, [%s], %s)" % (recutil.c_record(case["rec"]), ops, recutil.c_record(obs))


def run(ctx):
    ctx.rule = ("every length 1..8 (quick) / 1..12 (thorough) x every k in [-2n,2n] x random feature tables "
                "(simple, compound, origin-spanning, extended, whole-length, source) and tracks, plus random "
                "lengths to 60 with 1-4 composed >>/<< ops; non-trivial = net rotation != 0 mod n and the record "
                "carries a feature or track; distinct by hash of the whole case")
    cases = gen_cases(ctx)
    obs = common.run_impl(ctx, "C13", "impl_rotate", cases)
    terms, idx = [], []
    for i, (c, o) in enumerate(zip(cases, obs)):
        ctx.evaluations += 1
        n = len(c["rec"]["seq"])
        K = sum(k if op == ">>" else -k for op, k in c["ops"])
        ctx.count("len<=12" if n <= 12 else "len>12")
        if n > 1 and any(c["rec"]["seq"] == c["rec"]["seq"][j:] + c["rec"]["seq"][:j] for j in range(1, n)):
            ctx.count("periodic-word")
        for f in c["rec"]["features"]:
            ctx.count("shape:" + f["shape"])
        if K % n and (c["rec"]["features"] or c["rec"]["tracks"]):
            ctx.nontriv(c)
        if "exc" in o:
            ctx.disagreements.append({"case": c, "impl": o, "observable": "record after rotation"})
            continue
        terms.append(c_case(c, o))
        idx.append(i)
    ctx.sample({"case": cases[len(cases) // 2], "impl": obs[len(cases) // 2]})
    bad = common.coq_eval_cases(ctx, "rot", IMPORTS, terms, "check")
    suspects = []
    for b in bad:
        i = idx[b]
        ctx.disagreements.append({"case": cases[i], "impl": obs[i],
                                  "observable": "(seq, features, tracks) of rot_record vs >>/<<",
                                  "model_fn": "Record.rot_record / rotl_record"})
        suspects.append(cases[i])
    # direct oracle: first on the disagreeing inputs, then on everything
    order = suspects + cases
    res = common.run_impl(ctx, "C13", "oracle_rotate", order)
    for c, v in zip(order, res):
        if v:
            ctx.violations.append(dict(v, input=c))


def replay(ctx, data):
    v = data.get("violation") or {}
    case = v.get("input") or (data.get("correspondence_disagreements") or [{}])[0].get("case")
    if not case:
        print("nothing to replay")
        return 2
    r = common.run_impl(ctx, "C13", "oracle_rotate", [case])[0]
    print("implementation:", common.run_impl(ctx, "C13", "impl_rotate", [case])[0])
    print("oracle:", r)
    return 1 if r else 0
