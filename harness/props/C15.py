# coding: utf-8
"""C15 — a circular record behaves as a circle, never as a line."""
EXTRA_OBLIGATION_FILES = ("Props/C15_src.v",)

import itertools

from harness import common, recutil

LEVEL_NOTE = ("Membership theorems (iff with 'occurs in some rotation', rotation-independence) for every alphabet and "
              "length; TypeError on +, ValueError on linear, plain-slice and deep-copy clauses are object-protocol "
              "facts: constant outcomes in the model, decided by exhaustive correspondence over operand kinds/bounds.")

IMPORTS = """From MV Require Import Base Circle Glue.
From Coq Require Import String.
Inductive c15case :=
| CContains (q s : string) (obs : bool)
| CAdd (obs : outcome)
| CCtor (circular_or_absent : bool) (obs : outcome)
| CSlice (s : string) (a b : nat) (obs : string).
Definition outcome_eqb (a b : outcome) : bool :=
  match a, b with OValue,OValue | OTypeError,OTypeError | OValueError,OValueError => true | _,_ => false end.
Definition check (c : c15case) : bool :=
  match c with
  | CContains q s obs => Bool.eqb (contains letter_eqb (dna q) (dna s)) obs
  | CAdd obs => outcome_eqb add_outcome obs
  | CCtor t obs => outcome_eqb (ctor_outcome t) obs
  | CSlice s a b obs => word_eqb (slice_seq (dna s) a b) (dna obs)
  end.
"""

OPERANDS = ["str", "seq", "seqrecord", "circular", "empty_str", "int", "none", "list"]

# ------------------------------------------------------------ generators


def words(alpha, lo, hi):
    for n in range(lo, hi + 1):
        for w in itertools.product(alpha, repeat=n):
            yield "".join(w)


def gen_cases(ctx):
    rng = ctx.rng
    cases = []
    wmax, qmax = (4, 6) if ctx.quick else (5, 7)
    for s in words("AC", 1, wmax):
        for q in words("AC", 0, qmax):
            cases.append({"kind": "contains", "s": s, "q": q})
    for _ in range(300 if ctx.quick else 3000):
        n = rng.randrange(1, 40)
        s = "".join(rng.choice("ACGT") for _ in range(n))
        mode = rng.random()
        if mode < 0.5:      # a true circular infix, often spanning the origin
            k = rng.randrange(0, n)
            ln = rng.randrange(0, n + 1)
            q = (s + s)[k:k + ln]
        elif mode < 0.7:    # longer than the record
            q = (s * 3)[rng.randrange(0, n):][: n + rng.randrange(1, 4)]
        else:
            q = "".join(rng.choice("ACGT") for _ in range(rng.randrange(0, n + 3)))
        cases.append({"kind": "contains", "s": s, "q": q})
    # histories: the same record object queried, edited in place (a MutableSeq letter, a new Seq), queried again
    for _ in range(60 if ctx.quick else 600):
        n = rng.randrange(2, 12)
        cur = init = "".join(rng.choice("AC") for _ in range(n))
        steps = []
        for _ in range(rng.randrange(3, 8)):
            r = rng.random()
            if r < 0.55:
                k = rng.randrange(0, len(cur))
                ln = rng.randrange(1, len(cur) + 1)
                q = (cur + cur)[k:k + ln]
                if rng.random() < 0.3:
                    q = "".join(rng.choice("AC") for _ in range(ln))
                steps.append(["in", q])
            elif r < 0.85:
                i = rng.randrange(0, len(cur))
                x = rng.choice("GT")
                cur = cur[:i] + x + cur[i + 1:]
                steps.append(["set", i, x])
            else:
                cur = "".join(rng.choice("ACGT") for _ in range(rng.randrange(1, 12)))
                steps.append(["assign", cur])
        cases.append({"kind": "history", "init": init, "steps": steps})
    for side in ("left", "right", "iadd"):
        for op in OPERANDS:
            cases.append({"kind": "add", "side": side, "operand": op})
    for topo in [None, "circular", "Circular", "CIRCULAR", "linear", "Linear", "LINEAR"]:
        for via in ("seq", "seqrecord", "circularrecord"):
            cases.append({"kind": "ctor", "topology": topo, "via": via})
    nmax = 4 if ctx.quick else 5
    for n in range(1, nmax + 1):
        s = "".join(recutil.ALPHA30[(7 * i + n) % 30] for i in range(n))
        bounds = [None] + list(range(-n - 2, n + 3))
        for a in bounds:
            for b in bounds:
                cases.append({"kind": "slice", "s": s, "a": a, "b": b, "topology": rng.choice([None, "circular"])})
    for probe in ("feature_location", "feature_qualifier", "annotation", "dbxref", "letter_annotation",
                  "feature_list", "orig_feature_qualifier", "orig_annotation"):
        cases.append({"kind": "copy", "probe": probe})
        cases.append({"kind": "copy", "probe": probe, "source": "circularrecord"})
    # sources whose containers are empty (a record made from a bare sequence, as FASTA readers produce), the copy or the
    # original then receiving its first feature / annotation / cross-reference
    for shape in ("bare", "no_features", "no_annotations", "no_dbxrefs"):
        for probe in ("add_feature", "add_annotation", "add_dbxref", "orig_add_feature", "orig_add_annotation",
                      "orig_add_dbxref"):
            for source in (None, "circularrecord"):
                cases.append({"kind": "copy", "probe": probe, "shape": shape, "source": source})
    # letter case is part of the text: a query differing from the record in case only is not contained
    for _ in range(60 if ctx.quick else 600):
        n = rng.randrange(2, 20)
        s = "".join(rng.choice("ACGTacgt") for _ in range(n))
        k = rng.randrange(0, n)
        ln = rng.randrange(1, n + 1)
        q = (s + s)[k:k + ln]
        if rng.random() < 0.7:
            i = rng.randrange(0, len(q))
            q = q[:i] + q[i].swapcase() + q[i + 1:]
        cases.append({"kind": "contains", "s": s, "q": q})
    return cases


# ------------------------------------------------------------ worker side

def _operand(kind):
    from Bio.Seq import Seq
    from Bio.SeqRecord import SeqRecord
    from moclo.record import CircularRecord
    return {"str": "ACGT", "seq": Seq("ACGT"), "seqrecord": SeqRecord(Seq("ACGT"), id="o"),
            "circular": CircularRecord(Seq("ACGT"), id="o"), "empty_str": "", "int": 3,
            "none": None, "list": ["A"]}[kind]


def _outcome(fn):
    try:
        v = fn()
    except TypeError:
        return "TypeError", None
    except ValueError:
        return "ValueError", None
    except Exception as e:  # noqa
        return type(e).__name__, None
    return "value", v


def _annotated(seq="ACGTAC", shape=None):
    from Bio.Seq import Seq
    from Bio.SeqRecord import SeqRecord
    from Bio.SeqFeature import SeqFeature, FeatureLocation
    if shape == "bare":
        return SeqRecord(Seq(seq), id="orig")
    if shape is not None:
        return SeqRecord(Seq(seq), id="orig", name="nm", description="d",
                         dbxrefs=[] if shape == "no_dbxrefs" else ["db:1"],
                         features=[] if shape == "no_features" else
                         [SeqFeature(FeatureLocation(1, 3, strand=1), type="misc", qualifiers={"label": ["a"]})],
                         annotations={} if shape == "no_annotations" else {"note": ["x"]})
    return SeqRecord(Seq(seq), id="orig", name="nm", description="d", dbxrefs=["db:1"],
                     features=[SeqFeature(FeatureLocation(1, 3, strand=1), type="misc", qualifiers={"label": ["a"]})],
                     annotations={"topology": "circular", "note": ["x"]},
                     letter_annotations={"q": [1, 2, 3, 4, 5, 6][: len(seq)]})


def impl_case(c):
    from Bio.Seq import Seq
    from Bio.SeqRecord import SeqRecord
    from moclo.record import CircularRecord
    k = c["kind"]
    if k == "contains":
        r = CircularRecord(Seq(c["s"]), id="r")
        out = {"in": bool(c["q"] in r)}
        out["rot"] = [bool(c["q"] in (r >> j)) for j in range(len(c["s"]))]
        return out
    if k == "history":
        from Bio.Seq import MutableSeq
        r = CircularRecord(MutableSeq(c["init"]), id="r")
        answers = []
        for st in c["steps"]:
            if st[0] == "in":
                answers.append([st[1], str(r.seq), bool(st[1] in r)])
            elif st[0] == "set":
                r.seq[st[1] % len(r.seq)] = st[2]
            else:
                r.seq = MutableSeq(st[1])
        return {"answers": answers}
    if k == "add":
        r = CircularRecord(Seq("GGCC"), id="r")
        o = _operand(c["operand"])
        if c["side"] == "left":
            oc, _ = _outcome(lambda: r + o)
        elif c["side"] == "right":
            oc, _ = _outcome(lambda: o + r)
        else:
            def f():
                x = r
                x += o
                return x
            oc, _ = _outcome(f)
        return {"outcome": oc}
    if k == "ctor":
        ann = {} if c["topology"] is None else {"topology": c["topology"]}
        if c["via"] == "seq":
            oc, v = _outcome(lambda: CircularRecord(Seq("ACGT"), id="r", annotations=dict(ann)))
        elif c["via"] == "circularrecord":
            # an existing CircularRecord whose annotations were edited afterwards, wrapped again
            src = CircularRecord(Seq("ACGT"), id="r")
            src.annotations.update(ann)
            oc, v = _outcome(lambda: CircularRecord(src))
            if v is src:
                return {"outcome": oc, "cls": "the-very-same-object"}
        else:
            src = SeqRecord(Seq("ACGT"), id="r", annotations=dict(ann))
            oc, v = _outcome(lambda: CircularRecord(src))
        return {"outcome": oc, "cls": type(v).__name__ if v is not None else None}
    if k == "slice":
        ann = {} if c["topology"] is None else {"topology": c["topology"], "molecule_type": "DNA"}
        r = CircularRecord(Seq(c["s"]), id="r", annotations=ann)
        oc, v = _outcome(lambda: r[c["a"]:c["b"]])
        if v is None:
            return {"outcome": oc}
        return {"outcome": oc, "seq": str(v.seq), "cls": type(v).__name__,
                "is_circular_record": isinstance(v, CircularRecord),
                "topology": v.annotations.get("topology")}
    if k == "copy":
        src = _annotated(shape=c.get("shape"))
        if c.get("source") == "circularrecord":
            src = CircularRecord(src)           # wrapping an existing CircularRecord copies it too
        cp = CircularRecord(src)
        before_src = recutil.deep_snapshot(src)
        before_cp = recutil.deep_snapshot(cp)
        p = c["probe"]
        from Bio.SeqFeature import FeatureLocation
        if p == "feature_location":
            cp.features[0].location = FeatureLocation(0, 1)
        elif p == "feature_qualifier":
            cp.features[0].qualifiers["label"].append("zz")
        elif p == "annotation":
            cp.annotations["note"].append("y")
        elif p == "dbxref":
            cp.dbxrefs.append("db:2")
        elif p == "letter_annotation":
            cp.letter_annotations["q"][0] = 99
        elif p == "feature_list":
            cp.features.append(cp.features[0])
        elif p.endswith("add_feature"):
            from Bio.SeqFeature import SeqFeature
            (src if p.startswith("orig_") else cp).features.append(SeqFeature(FeatureLocation(0, 2, strand=1), type="new"))
        elif p.endswith("add_annotation"):
            (src if p.startswith("orig_") else cp).annotations["comment"] = "new"
        elif p.endswith("add_dbxref"):
            (src if p.startswith("orig_") else cp).dbxrefs.append("db:new")
        elif p == "orig_feature_qualifier":
            src.features[0].qualifiers["label"].append("zz")
        elif p == "orig_annotation":
            src.annotations["note"].append("y")
        if p.startswith("orig_"):
            return {"untouched": recutil.deep_snapshot(cp) == before_cp, "cls": type(cp).__name__}
        return {"untouched": recutil.deep_snapshot(src) == before_src, "cls": type(cp).__name__}
    raise ValueError(k)


def _rot(s, k):
    n = len(s)
    k %= n
    return s[n - k:] + s[:n - k]


def oracle_case(c):
    o = impl_case(c)
    k = c["kind"]
    if k == "contains":
        s, q = c["s"], c["q"]
        exp = len(q) <= len(s) and any(q in _rot(s, j) for j in range(len(s)))
        if o["in"] != exp:
            return {"signature": "C15:membership", "what": "%r in circle %r is %s, expected %s" % (q, s, o["in"], exp)}
        if any(x != exp for x in o["rot"]):
            return {"signature": "C15:membership-rotation", "what": "%r in rotations of %r: %r" % (q, s, o["rot"])}
    elif k == "history":
        for q, cur, ans in o["answers"]:
            exp = len(q) <= len(cur) and any(q in _rot(cur, j) for j in range(len(cur)))
            if ans != exp:
                return {"signature": "C15:membership-after-edit",
                        "what": "after in-place edits the record reads %r; %r in it is %s, expected %s" % (cur, q, ans, exp)}
    elif k == "add":
        if o["outcome"] != "TypeError":
            return {"signature": "C15:add:%s:%s" % (c["side"], c["operand"]),
                    "what": "%s with %s operand gives %s, not TypeError" % (c["side"], c["operand"], o["outcome"])}
    elif k == "ctor":
        linear = c["topology"] is not None and c["topology"].lower() != "circular"
        exp = "ValueError" if linear else "value"
        if o["outcome"] != exp or (exp == "value" and o["cls"] != "CircularRecord"):
            return {"signature": "C15:ctor", "what": "constructor with topology %r via %s: %s" % (c["topology"], c["via"], o)}
    elif k == "slice":
        exp = c["s"][c["a"]:c["b"]]
        if o.get("outcome") != "value" or o["seq"] != exp:
            return {"signature": "C15:slice-seq", "what": "%r[%r:%r] -> %r, expected %r" % (c["s"], c["a"], c["b"], o, exp)}
        if o["is_circular_record"] or (o["topology"] or "").lower() == "circular":
            return {"signature": "C15:slice-topology", "what": "slice claims circular topology: %r" % (o,)}
    elif k == "copy":
        if not o["untouched"] or o["cls"] != "CircularRecord":
            return {"signature": "C15:copy:" + c["probe"], "what": "edit through %s reached the other record" % c["probe"]}
    return None


# ------------------------------------------------------------ driver side

OC = {"value": "OValue", "TypeError": "OTypeError", "ValueError": "OValueError"}


def c_case(c, o):
    k = c["kind"]
    if k == "contains":
        return 'CContains "%s" "%s" %s' % (c["q"], c["s"], common.cbool(o["in"]))
    if k == "history":
        return ['CContains "%s" "%s" %s' % (q, cur, common.cbool(ans)) for q, cur, ans in o["answers"]]
    if k == "add":
        if o["outcome"] not in OC:
            return None
        return "CAdd %s" % OC[o["outcome"]]
    if k == "ctor":
        if o["outcome"] not in OC:
            return None
        t = c["topology"] is None or c["topology"].lower() == "circular"
        return "CCtor %s %s" % (common.cbool(t), OC[o["outcome"]])
    if k == "slice":
        if o.get("outcome") != "value":
            return None
        a, b, _ = slice(c["a"], c["b"]).indices(len(c["s"]))
        return 'CSlice "%s" %d %d "%s"' % (c["s"], a, b, o["seq"])
    return "SKIP"


def run(ctx):
    ctx.rule = ("membership: every word of length 1..4 (quick) / 1..5 over {A,C} x every query of length 0..6 / 0..7, each "
                "also asked of every rotation, plus random long cases (true infixes spanning the origin, too-long and "
                "random queries); + / radd / += over 8 operand kinds; constructor over 7 topology spellings x 2 routes; "
                "histories of 3-7 queries / in-place letter edits (MutableSeq) / sequence reassignments on one record object; every slice bound pair in ([-n-2,n+2] u None)^2 for n <= 4/5; 8 copy-mutation probes; non-trivial = "
                "membership cases whose answer is True with a query longer than one letter, and every protocol case")
    cases = gen_cases(ctx)
    ctx.exhaustive = True
    obs = common.run_impl(ctx, "C15", "impl_case", cases)
    terms, idx = [], []
    for i, (c, o) in enumerate(zip(cases, obs)):
        ctx.evaluations += 1
        ctx.count("kind:" + c["kind"])
        if c["kind"] != "contains" or (o["in"] and len(c["q"]) > 1):
            ctx.nontriv(c)
        if c["kind"] == "history":
            for term in c_case(c, o):
                terms.append(term)
                idx.append(i)
            continue
        t = c_case(c, o)
        if t is None:
            ctx.disagreements.append({"case": c, "impl": o, "observable": "outcome class outside the model's enum"})
        elif t != "SKIP":
            terms.append(t)
            idx.append(i)
    ctx.sample({"case": cases[100], "impl": obs[100]})
    bad = common.coq_eval_cases(ctx, "circle", IMPORTS, terms, "check", per_file=600)
    suspects = []
    for b in bad:
        i = idx[b]
        ctx.disagreements.append({"case": cases[i], "impl": obs[i], "observable": "Circle.contains / add_outcome / ctor_outcome / slice_seq"})
        suspects.append(cases[i])
    order = suspects + cases
    res = common.run_impl(ctx, "C15", "oracle_case", order)
    for c, v in zip(order, res):
        if v:
            ctx.violations.append(dict(v, input=c))


def replay(ctx, data):
    v = data.get("violation") or {}
    case = v.get("input") or (data.get("correspondence_disagreements") or [{}])[0].get("case")
    if not case:
        print("nothing to replay")
        return 2
    print("implementation:", common.run_impl(ctx, "C15", "impl_case", [case])[0])
    r = common.run_impl(ctx, "C15", "oracle_case", [case])[0]
    print("oracle:", r)
    return 1 if r else 0
