# coding: utf-8
"""C19 — parts of the same type are interchangeable."""
EXTRA_OBLIGATION_FILES = ("Props/C03_src.v",)

from harness import common, gens
from harness.props import C03

LEVEL_NOTE = ("Swap theorem on the model of the assembly walk (any module list, any position, any replacement with the "
              "same overhang keys); tied to _assembly.py/modules.py by differential correspondence of both products "
              "from raw sequences, and a segment-wise oracle on the implementation.")

IMPORTS = C03.IMPORTS


def gen_cases(ctx):
    rng = ctx.rng
    enzymes = ctx.tables["enzymes"]
    # one representative per geometry (site length, off, ovh)
    shapes = {}
    for e in enzymes:
        shapes.setdefault((len(e["site"]), e["off"], e["ovh"]), e)
    reps = sorted(shapes.values(), key=lambda e: e["name"])
    cases = []
    per = 4 if ctx.quick else 40
    for enz in reps:
        if len(enz["site"]) < 4:
            continue
        made = 0
        for _ in range(per * 4):
            if made >= per:
                break
            q = rng.randrange(1, 5)
            ch = gens.gen_chain(rng, enz, q)
            if ch is None:
                continue
            made += 1
            extra = None
            if rng.random() < 0.4:      # an unused bystander that fits nowhere
                ohs = gens.distinct_overhangs(rng, enz, 2)
                used = {m["up"] for m in ch["modules"]} | {gens.rc(m["up"]) for m in ch["modules"]} | {ch["vector"]["up"]}
                if ohs and ohs[0] not in used and gens.rc(ohs[0]) not in used:
                    extra = gens.gen_module(rng, enz, ohs[0], ohs[1], 3, 2)
            for j in range(q):
                old = ch["modules"][j]
                new = gens.gen_module(rng, enz, old["up"], old["down"],
                                      rng.choice([2, 3, 5, 9, 14]), rng.randrange(0, 7))
                if new is None:
                    continue
                variant = "fresh"
                site, rsite = enz["site"], gens.rc(enz["site"])
                # the replaced position may be wrapped by a typed part class (fixed overhang signature, as kit parts are)
                jcls = gens.generic_spec("module", enz)
                if rng.random() < 0.5:
                    jcls = {"kind": "part", "role": "module", "enzyme": enz["name"], "sig": [old["up"], old["down"]]}
                    variant = "typed"
                    if site != rsite and rng.random() < 0.6:
                        # a valid sibling on a backbone that is not domesticated: the discarded stretch carries one more
                        # copy of the (reverse) site, not preceded by the downstream overhang
                        for _ in range(20):
                            bb = gens.rand_dna(rng, rng.randrange(enz["off"] + enz["ovh"] + 1, enz["off"] + enz["ovh"] + 5)) \
                                + rsite + gens.rand_dna(rng, rng.randrange(1, 5))
                            sq = gens.module_seq(enz, old["up"], old["down"], new["t"], bb, rng=rng)
                            k = sq.rindex(rsite)
                            before = sq[k - enz["off"] - enz["ovh"]:k - enz["off"]]
                            if gens.count_circ(site, sq) == 1 and gens.count_circ(rsite, sq) == 2 and before.upper() != old["down"].upper():
                                new = dict(new, seq=sq)
                                variant = "typed:site-in-backbone"
                                break
                order = list(range(q))
                rng.shuffle(order)
                mods1 = [ch["modules"][i] for i in order] + ([extra] if extra else [])
                mods2 = [new if i == j else ch["modules"][i] for i in order] + ([extra] if extra else [])
                pre = "".join(m["frag"] for m in ch["modules"][:j])
                post = "".join(m["frag"] for m in ch["modules"][j + 1:]) + ch["vector"]["frag"]
                mode = rng.choice(["upper", "upper", "lower-new", "random-new"])
                # every plasmid is read from a random origin, mostly inside its flanking structure
                seqs = {id(m): gens.reorigin(rng, m) for m in mods1 + [new]}
                vseq = gens.reorigin(rng, ch["vector"])
                newseq = seqs[id(new)]
                if mode == "lower-new":
                    newseq = newseq.lower()
                elif mode == "random-new":
                    newseq = "".join(c.lower() if rng.random() < 0.5 else c for c in newseq)
                # record identifiers play no part: in a third of the cases every module record carries the same id
                # (exports named alike), or the replacement takes the id of a neighbour
                idmode = rng.choice(["distinct", "distinct", "all-same", "new-as-neighbour"])

                def with_id(d, m, k):
                    if idmode == "all-same":
                        return dict(d, id="Exported")
                    if idmode == "new-as-neighbour" and m is new and q > 1:
                        return dict(d, id="mod%d" % ((k + 1) % len(mods2)))
                    return d
                cases.append({
                    "enz": enz["name"], "q": q, "pos": j, "mode": mode, "variant": variant + ":ids-" + idmode,
                    "vector": {"cls": gens.generic_spec("vector", enz), "seq": vseq},
                    "modules1": [with_id({"cls": (jcls if m is old else gens.generic_spec("module", enz)), "seq": seqs[id(m)]}, m, k)
                                 for k, m in enumerate(mods1)],
                    "modules2": [with_id({"cls": (jcls if m is new else gens.generic_spec("module", enz)),
                                          "seq": (newseq if m is new else seqs[id(m)])}, m, k) for k, m in enumerate(mods2)],
                    "truth": {"pre": pre, "old": old["frag"], "new": new["frag"], "post": post},
                })
    return cases


# ------------------------------------------------------------ worker side

def impl_pair(case):
    from harness import implutil
    out = []
    for key in ("modules1", "modules2"):
        out.append(implutil.run_assembly({"vector": case["vector"], "modules": case[key], "typed": False}))
    return out


def impl_inplace(case):
    """the replacement made the way a user edits a plasmid: the replaced module's record object receives the new
    sequence in place and is wrapped again by the same class; the other entities are the objects of the first call"""
    from Bio.Seq import Seq
    from harness import implutil
    try:
        vector = implutil.mk_entity(case["vector"], "vector")
        mods = [implutil.mk_entity(m, "mod%d" % i) for i, m in enumerate(case["modules1"])]
    except Exception as e:  # noqa
        return None
    # the plasmids of a laboratory carry literature citations: one citing feature on the vector (citations never
    # change a product's sequence)
    from Bio.SeqFeature import SeqFeature, FeatureLocation
    from harness import recutil
    vector.record.annotations["references"] = [recutil.mk_reference(3)]
    vector.record.features.append(SeqFeature(FeatureLocation(0, 1, 1), type="misc_feature",
                                             qualifiers={"citation": ["[1]"], "label": ["cited"]}))
    o1, _ = implutil.observe_assembly(vector, mods)
    j = [i for i, (a, b) in enumerate(zip(case["modules1"], case["modules2"])) if a["seq"] != b["seq"]]
    if len(j) != 1:
        return None
    j = j[0]
    rec = mods[j].record
    rec.seq = Seq(case["modules2"][j]["seq"])
    try:
        mods[j] = implutil.get_class(case["modules2"][j]["cls"])(rec)
        o2, _ = implutil.observe_assembly(vector, mods)
    except Exception as e:  # noqa
        o2 = {"out": implutil.exc_class(e), "exc": type(e).__name__}
    return [o1, o2]


def impl_alive(case):
    """two more replacements, made while the typed objects of the first assembly are alive and have been used:
    (i) the replaced module's own plasmid read from another origin, in a new record and a new typed object — a valid
    module with the same overhangs, so the product must be the very same; (ii) the replacement carrying features with
    fuzzy positions (<, >, within, between, one-of), as curated GenBank files do"""
    from harness import implutil
    from Bio.SeqFeature import (SeqFeature, FeatureLocation, BeforePosition, AfterPosition, WithinPosition,
                                BetweenPosition, OneOfPosition, ExactPosition)
    try:
        vector = implutil.mk_entity(case["vector"], "vector")
        mods = [implutil.mk_entity(m, "mod%d" % i) for i, m in enumerate(case["modules1"])]
    except Exception:  # noqa
        return None
    j = [i for i, (a, b) in enumerate(zip(case["modules1"], case["modules2"])) if a["seq"] != b["seq"]]
    if len(j) != 1:
        return None
    j = j[0]
    o1, _ = implutil.observe_assembly(vector, mods)
    seq = case["modules1"][j]["seq"]
    k = max(1, len(seq) // 3)
    rot = implutil.get_class(case["modules1"][j]["cls"])(implutil.mk_circular(seq[-k:] + seq[:-k], "again"))
    mi = list(mods)
    mi[j] = rot
    try:
        oi, _ = implutil.observe_assembly(vector, mi)
    except Exception as e:  # noqa
        oi = {"out": "raised", "exc": type(e).__name__}
    rec = implutil.mk_circular(case["modules2"][j]["seq"], "fuzzy")
    n = len(rec.seq)
    if n >= 8:
        rec.features += [
            SeqFeature(FeatureLocation(BeforePosition(1), AfterPosition(n - 1), 1), type="gene", qualifiers={"label": ["fz1"]}),
            SeqFeature(FeatureLocation(WithinPosition(n - 4, n - 4, n - 3), ExactPosition(n - 1), -1), type="CDS", qualifiers={"label": ["fz2"]}),
            SeqFeature(FeatureLocation(ExactPosition(n // 2), BetweenPosition(n // 2 + 2, n // 2 + 2, n // 2 + 3), 1), type="misc_feature", qualifiers={"label": ["fz3"]}),
            SeqFeature(FeatureLocation(OneOfPosition(n - 3, [ExactPosition(n - 3), ExactPosition(n - 2)]), ExactPosition(n), 1), type="misc_feature", qualifiers={"label": ["fz4"]}),
        ]
    mii = list(mods)
    try:
        mii[j] = implutil.get_class(case["modules2"][j]["cls"])(rec)
        oii, _ = implutil.observe_assembly(vector, mii)
    except Exception as e:  # noqa
        oii = {"out": "raised", "exc": type(e).__name__}
    return [o1, oi, oii]


def oracle_pair(case):
    o1, o2 = impl_pair(case)
    t = case["truth"]
    al = impl_alive(case)
    if al is not None and o1["out"] == "product":
        key = lambda o: (o["out"], (o.get("seq") or "").upper(), o.get("unused"))
        if key(al[1]) != key(o1):
            return {"signature": "C19:same-plasmid-from-another-origin",
                    "what": "replacing module %d by its own plasmid read from another origin (new record, new typed object, "
                            "the first ones alive) gives %s %s, the original product is %s" % (case["pos"], al[1]["out"], al[1].get("seq"), o1.get("seq"))}
        if key(al[2]) != key(o2):
            return {"signature": "C19:replacement-with-fuzzy-features",
                    "what": "the replacement carrying features with fuzzy positions gives %s %s %s, without them %s %s"
                            % (al[2]["out"], al[2].get("exc"), al[2].get("seq"), o2["out"], o2.get("seq"))}
    ip = impl_inplace(case)
    if ip is not None:
        for a, b, what in ((o1, ip[0], "original"), (o2, ip[1], "replacement")):
            if (a["out"], a.get("seq"), a.get("unused")) != (b["out"], b.get("seq"), b.get("unused")):
                return {"signature": "C19:edited-in-place:" + what,
                        "what": "with the replaced module's record edited in place and wrapped again the %s assembly gives %s %s, "
                                "from fresh records it gives %s %s" % (what, b["out"], b.get("seq"), a["out"], a.get("seq"))}
    if o1["out"] != "product":
        return {"signature": "C19:base-assembly-failed", "what": "the original assembly did not succeed: %s" % o1["out"]}
    if o2["out"] != "product":
        return {"signature": "C19:replacement-rejected",
                "what": "replacing module %d by one with the same overhangs gives %s" % (case["pos"], o2["out"])}
    p1, p2 = o1["seq"], o2["seq"]
    if p1.upper() != (t["pre"] + t["old"] + t["post"]).upper():
        return {"signature": "C19:base-product", "what": "original product is not pre+segment+post"}
    pre, post = p1[:len(t["pre"])], p1[len(t["pre"]) + len(t["old"]):]
    if not (p2.startswith(pre) and p2.endswith(post) and len(p2) == len(pre) + len(t["new"]) + len(post)):
        return {"signature": "C19:other-segments-changed",
                "what": "after the swap the product differs outside the replaced module's segment: %s vs %s" % (p1, p2)}
    if p2[len(pre):len(p2) - len(post)].upper() != t["new"].upper():
        return {"signature": "C19:new-segment", "what": "the replaced segment is not the new module's overhang+target"}
    if o1["unused"] != o2["unused"]:
        return {"signature": "C19:unused-changed", "what": "the set of unused modules changed"}
    return None


# ------------------------------------------------------------ driver side

def run(ctx):
    ctx.rule = ("one enzyme per geometry of the supported family; every plasmid read from a random origin (75% inside its flanking structure); chains of 1-4 generated modules (+ an unused bystander "
                "in 40%), each chain position replaced by a fresh module with the same overhangs, a target of another "
                "length and another backbone, possibly in another letter case; shuffled argument order; every case is "
                "non-trivial (two successful assemblies)")
    cases = gen_cases(ctx)
    obs = common.run_impl(ctx, "C19", "impl_pair", cases)
    terms, idx = [], []
    for i, (c, o) in enumerate(zip(cases, obs)):
        ctx.evaluations += 1
        ctx.count("enzyme:" + c["enz"])
        ctx.count("chain:%d" % c["q"])
        ctx.count("case:" + c["mode"])
        ctx.count("replacement:" + c["variant"])
        if o[0]["out"] == "product" and o[1]["out"] == "product":
            ctx.nontriv([c["vector"]["seq"], [m["seq"] for m in c["modules2"]]])
        for key, ob in (("modules1", o[0]), ("modules2", o[1])):
            terms.append(C03.c_raw(ctx, {"vector": c["vector"], "modules": c[key]}, ob))
            idx.append(i)
    ctx.sample({"case": {k: cases[0][k] for k in ("enz", "q", "pos", "truth")}, "impl": [o["out"] for o in obs[0]]})
    bad = common.coq_eval_cases(ctx, "swap", IMPORTS, terms, "check_raw", per_file=200)
    suspects = []
    for b in sorted(set(idx[x] for x in bad)):
        ctx.disagreements.append({"case": cases[b], "impl": [{k: o.get(k) for k in ("out", "seq", "unused")} for o in obs[b]],
                                  "observable": "products of the original and the swapped assembly vs Pipeline.assemble_raw",
                                  "model_fn": "Pipeline.assemble_raw"})
        suspects.append(cases[b])
    order = suspects + cases
    res = common.run_impl(ctx, "C19", "oracle_pair", order)
    for c, v in zip(order, res):
        if v:
            ctx.violations.append(dict(v, input=c))


def replay(ctx, data):
    v = data.get("violation") or {}
    case = v.get("input") or (data.get("correspondence_disagreements") or [{}])[0].get("case")
    if not case:
        print("nothing to replay")
        return 2
    print("implementation:", [{k: o.get(k) for k in ("out", "seq", "unused")} for o in common.run_impl(ctx, "C19", "impl_pair", [case])[0]])
    r = common.run_impl(ctx, "C19", "oracle_pair", [case])[0]
    print("oracle:", r)
    return 1 if r else 0
