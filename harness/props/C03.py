# coding: utf-8
"""C03 — ambiguous or incomplete module sets never produce a plasmid."""
EXTRA_OBLIGATION_FILES = ("Props/C03_src.v",)

import itertools

from harness import common, gens, pattern

LEVEL_NOTE = ("Theorems on the model of AssemblyManager over typed elements (all multisets, all permutations, arbitrary "
              "overhang keys); _assembly.py tied by differential correspondence at two levels (walk fed with the "
              "implementation's own overhangs; end to end from raw sequences through the model's typing) over an "
              "exhaustive small scope, plus an independent graph oracle on the implementation.")

IMPORTS = """From MV Require Import Base Regex Typing Assembly Pipeline Glue SrcGlue.
From Coq Require Import String.
Definition mk_mod (x : nat * string * string * string) : @tmod (list code) :=
  let '(i, u, d, f) := x in TM i (okey (dna u)) (okey (dna d)) (dna f).
Definition check_l3 (c : (string * string * string) * list (nat * string * string * string) * asm_obs) : bool :=
  let '((u, d, f), ms, obs) := c in
  asm_obs_ok (dna_assemble (TV (okey (dna u)) (okey (dna d)) (dna f)) (map mk_mod ms)) obs.
Definition check_raw (c : (cls * string) * list (cls * string) * asm_obs) : bool :=
  let '((vc, v), ms, obs) := c in
  let raw := map (fun x => (fst x, dna (snd x))) ms in
  asm_obs_ok (assemble_raw vc (dna v) raw) obs && asm_obs_ok (src_assemble vc (dna v) raw) obs.
"""

# overhang alphabets: a reverse-complementary pair, a palindrome, unrelated words
OHS_QUICK = ["AATG", "CATT", "ACGT", "GCTT"]
OHS_THOROUGH = ["AATG", "CATT", "ACGT", "GCTT", "TCCA"]


def build_plasmids(ctx, enz, ohs):
    """one module plasmid per (start, end) pair, one vector per (up, down) pair"""
    rng = ctx.rng
    mods, vecs = {}, {}
    for u in ohs:
        for d in ohs:
            m = gens.gen_module(rng, enz, u, d, rng.randrange(2, 6), rng.randrange(0, 5))
            v = gens.gen_vector(rng, enz, u, d, rng.randrange(2, 6), rng.randrange(0, 5))
            if m is None or v is None:
                raise RuntimeError("could not build site-free plasmids for %s" % enz["name"])
            m["seq"] = gens.reorigin(rng, m)      # read from a random origin, mostly inside the flanks
            v["seq"] = gens.reorigin(rng, v)
            mods[(u, d)] = m
            vecs[(u, d)] = v
    return mods, vecs


def recase(rng, s, mode):
    if mode == "lower":
        return s.lower()
    if mode == "random":
        return "".join(c.lower() if rng.random() < 0.5 else c for c in s)
    return s


def gen_cases(ctx):
    rng = ctx.rng
    enzymes = {e["name"]: e for e in ctx.tables["enzymes"]}
    cases = []
    ohs = OHS_QUICK if ctx.quick else OHS_THOROUGH
    for ename in (["BpiI"] if ctx.quick else ["BpiI", "BsaI"]):
        enz = enzymes[ename]
        mods, vecs = build_plasmids(ctx, enz, ohs)
        mkeys = sorted(mods)
        lists = [()] + [(a,) for a in mkeys] + [(a, b) for a in mkeys for b in mkeys]
        lists = [l for l in lists if l]          # assemble() needs at least one module
        for vk in sorted(vecs):
            for l in lists:
                cases.append({"enz": ename, "vk": vk, "mks": list(l), "case_mode": "upper", "scope": "exhaustive<=2"})
        # sampled larger multisets, every permutation of each (size 3), random order (4-6)
        nsamp = 150 if ctx.quick else 3000
        for _ in range(nsamp):
            size = rng.choice([3, 3, 4, 5, 6])
            vk = rng.choice(sorted(vecs))
            # bias towards complete chains: walk the alphabet from vdown to vup
            l = []
            if rng.random() < 0.6:
                cur = vk[1]
                for _ in range(size):
                    nxt = rng.choice(ohs)
                    l.append((cur, nxt))
                    cur = nxt
                    if cur == vk[0] and rng.random() < 0.7:
                        break
                while len(l) < size and rng.random() < 0.4:
                    l.append(rng.choice(mkeys))
            else:
                l = [rng.choice(mkeys) for _ in range(size)]
            perms = list(itertools.permutations(l)) if len(l) <= 3 else [tuple(rng.sample(l, len(l))) for _ in range(3)]
            for p in sorted(set(perms)):
                cases.append({"enz": ename, "vk": vk, "mks": list(p), "case_mode": "upper", "scope": "sampled>=3"})
        for c in cases:
            if c["enz"] == ename and "vector" not in c:
                c["vector"] = {"cls": gens.generic_spec("vector", enz), "seq": vecs[tuple(c["vk"])]["seq"]}
                c["modules"] = [{"cls": gens.generic_spec("module", enz), "seq": mods[tuple(k)]["seq"]} for k in c["mks"]]
                c["truth"] = {"v": [c["vk"][0], c["vk"][1], vecs[tuple(c["vk"])]["frag"]],
                              "m": [[k[0], k[1], mods[tuple(k)]["frag"]] for k in c["mks"]]}
    # mixed letter case on a sample of the above (C18's clause, exercised here too)
    base = [c for c in cases if len(c["mks"]) >= 1]
    extra = []
    for c in rng.sample(base, min(len(base), 300 if ctx.quick else 3000)):
        mode = rng.choice(["lower", "random", "per-record"])
        d = dict(c, case_mode=mode, scope="mixed-case")

        def rs(s):
            if mode == "per-record":
                return recase(rng, s, rng.choice(["lower", "upper"]))
            return recase(rng, s, mode)
        d["vector"] = dict(c["vector"], seq=rs(c["vector"]["seq"]))
        d["modules"] = [dict(m, seq=rs(m["seq"])) for m in c["modules"]]
        extra.append(d)
    # record identifiers are not part of the overhang graph: the same cases with records that share an id
    # (two exports of the same name) or carry none
    for c in rng.sample(base, min(len(base), 200 if ctx.quick else 2000)):
        mode = rng.choice(["same-id", "no-id", "vector-id"])
        d = dict(c, scope="shared-ids")
        if mode == "same-id":
            d["modules"] = [dict(m, id="Exported") for m in c["modules"]]
        elif mode == "no-id":
            d["modules"] = [dict(m, id=None) for m in c["modules"]]
            d["vector"] = dict(c["vector"], id=None)
        else:
            d["modules"] = [dict(m, id="vector") for m in c["modules"]]
        extra.append(d)
    return cases + extra


# ------------------------------------------------------------ worker side

def impl_assemble(case):
    from harness import implutil
    return implutil.run_assembly(case)


def oracle_assemble(case):
    """Independent graph computation from the generator's ground truth."""
    from harness import implutil
    vector = implutil.mk_entity(case["vector"], "vector")
    modules = [implutil.mk_entity(m, "mod%d" % i) for i, m in enumerate(case["modules"])]
    obs, _ = implutil.observe_assembly(vector, modules)
    vup, vdown, _ = case["truth"]["v"]
    ms = case["truth"]["m"]
    mixed = case["case_mode"] != "upper"
    tag = ":mixed-case" if mixed else ""
    comp = {"A": "T", "C": "G", "G": "C", "T": "A"}

    def rcx(s):
        return "".join(comp[c] for c in reversed(s))
    # the specification
    if vup == vdown:
        exp = {"out": "invalid"}
    else:
        starts = {}
        clash = None
        for i, (u, d, f) in enumerate(ms):
            if u in starts:
                clash = (starts[u], i)
                break
            starts[u] = i
        if clash is None:
            for i, (u, d, f) in enumerate(ms):
                j = starts.get(rcx(u))
                if j is not None and j != i:
                    clash = (j, i)
                    break
        if clash is not None:
            exp = {"out": "duplicate"}
        else:
            cur, used, avail = vdown, [], dict(starts)
            exp = None
            while cur != vup:
                if cur not in avail:
                    exp = {"out": "missing", "oh": cur}
                    break
                i = avail.pop(cur)
                used.append(i)
                cur = ms[i][1]
            if exp is None:
                exp = {"out": "product", "used": used, "unused": sorted(avail.values())}
    if obs["out"] == "other":
        return {"signature": "C03:internal-error" + tag,
                "what": "assembly ended with %s (%s)" % (obs.get("exc"), obs.get("msg"))}
    if obs["out"] == "duplicate" and (len(obs.get("ids", [])) != 2 or -1 in obs.get("ids", [])):
        return {"signature": "C03:duplicate-names-non-module" + tag,
                "what": "DuplicateModules names %s: not two of the supplied modules (the graph requires %s)" % (obs.get("ids"), exp["out"])}
    if obs["out"] != exp["out"]:
        palin = any(u == rcx(u) for u, _, _ in ms)
        sig = "C03:outcome:%s-for-%s" % (obs["out"], exp["out"])
        if obs["out"] == "duplicate" and exp["out"] != "duplicate" and palin and not mixed:
            sig = "C03:palindromic-start-overhang-self-duplicate"
        return {"signature": sig + tag,
                "what": "outcome %s, the overhang graph requires %s (vector %s>%s, modules %s)"
                        % (obs["out"], exp["out"], vdown, vup, [m[:2] for m in ms])}
    if exp["out"] == "missing" and obs["oh"].upper() != exp["oh"]:
        return {"signature": "C03:stalled-overhang" + tag,
                "what": "MissingModule names %s, the chain stalls at %s" % (obs["oh"], exp["oh"])}
    if obs["out"] == "duplicate" and (len(obs["ids"]) != 2 or -1 in obs["ids"]):
        return {"signature": "C03:duplicate-names-non-module" + tag,
                "what": "DuplicateModules names %s: not two of the supplied modules (graph requires %s)" % (obs["ids"], exp["out"])}
    if exp["out"] == "duplicate":
        a, b = obs["ids"]
        ua, ub = ms[a][0], ms[b][0]
        if a == b or not (ua == ub or ua == rcx(ub)):
            return {"signature": "C03:duplicate-pair" + tag,
                    "what": "DuplicateModules names modules %d,%d which do not clash" % (a, b)}
    if exp["out"] == "product":
        # fragments as spelled in the (possibly re-cased) inputs: take them by position from the inputs
        word = "".join(ms[i][2] for i in exp["used"]) + case["truth"]["v"][2]
        if obs["seq"].upper() != word.upper():
            return {"signature": "C03:product-word" + tag,
                    "what": "product %s is not the chain's word %s" % (obs["seq"], word)}
        if obs["unused"] != exp["unused"]:
            return {"signature": "C03:unused-set" + tag,
                    "what": "UnusedModules names %s, the chain leaves %s" % (obs["unused"], exp["unused"])}
    return None


# ------------------------------------------------------------ driver side

def c_raw(ctx, case, obs):
    v = '(%s, "%s"%%string)' % (gens.c_cls(ctx, case["vector"]["cls"]), case["vector"]["seq"])
    ms = "; ".join('(%s, "%s"%%string)' % (gens.c_cls(ctx, m["cls"]), m["seq"]) for m in case["modules"])
    return "(%s, [%s], %s)" % (v, ms, gens.c_obs(obs))


def c_l3(case, obs):
    tv, tm = obs["tv"], obs["tm"]
    if tv["up"] is None or tv["down"] is None or tv["target"] is None:
        return None
    if any(t["up"] is None or t["down"] is None or t["target"] is None for t in tm):
        return None
    v = '("%s"%%string, "%s"%%string, "%s"%%string)' % (tv["up"], tv["down"], tv["target"])
    ms = "; ".join('(%d, "%s"%%string, "%s"%%string, "%s"%%string)' % (i, t["up"], t["down"], t["target"])
                   for i, t in enumerate(tm))
    return "(%s, [%s], %s)" % (v, ms, gens.c_obs(obs))


def run(ctx):
    ctx.rule = ("overhang alphabet with a reverse-complementary pair and a palindrome (4 words quick / 5 thorough); "
                "every vector pair x every ordered list of <= 2 modules over all (start,end) pairs (exhaustive), sampled "
                "lists of 3-6 in all/three permutations, a mixed-case sample; 28-45 nt BpiI (and BsaI, thorough) "
                "plasmids; non-trivial = the outcome is a product, a duplicate or a stall after >= 1 consumed module")
    cases = gen_cases(ctx)
    ctx.exhaustive = True
    obs = common.run_impl(ctx, "C03", "impl_assemble", cases)
    raw_terms, raw_idx, l3_terms, l3_idx = [], [], [], []
    for i, (c, o) in enumerate(zip(cases, obs)):
        ctx.evaluations += 1
        ctx.count("scope:" + c["scope"])
        ctx.count("outcome:" + o["out"])
        ctx.count("modules:%d" % len(c["mks"]))
        if o["out"] in ("product", "duplicate") or (o["out"] == "missing" and o["oh"].upper() != c["vk"][1]):
            ctx.nontriv([c["enz"], c["vk"], c["mks"], c["case_mode"]])
        raw_terms.append(c_raw(ctx, c, o))
        raw_idx.append(i)
        t = c_l3(c, o)
        if t is not None:
            l3_terms.append(t)
            l3_idx.append(i)
    ctx.sample({"case": {k: cases[-1][k] for k in ("enz", "vk", "mks", "case_mode")}, "impl": obs[-1]["out"]})
    suspects = []
    for name, terms, idx, fn in (("l3", l3_terms, l3_idx, "check_l3"), ("raw", raw_terms, raw_idx, "check_raw")):
        bad = common.coq_eval_cases(ctx, name, IMPORTS, terms, fn, per_file=300)
        for b in bad:
            i = idx[b]
            small = {k: cases[i][k] for k in ("enz", "vk", "mks", "case_mode", "vector", "modules", "truth")}
            ctx.disagreements.append({"case": small, "impl": {k: obs[i].get(k) for k in ("out", "seq", "unused", "ids", "oh", "exc")},
                                      "observable": "outcome / product / unused / stalled overhang of vector.assemble vs "
                                                    + ("Assembly.dna_assemble fed with the implementation's overhangs" if name == "l3"
                                                       else "Pipeline.assemble_raw on the raw sequences"),
                                      "model_fn": "Assembly.dna_assemble" if name == "l3" else "Pipeline.assemble_raw"})
            suspects.append(cases[i])
    order = suspects + cases
    res = common.run_impl(ctx, "C03", "oracle_assemble", order)
    for c, v in zip(order, res):
        if v:
            small = {k: c[k] for k in ("enz", "vk", "mks", "case_mode", "vector", "modules", "truth")}
            ctx.violations.append(dict(v, input=small))


def replay(ctx, data):
    v = data.get("violation") or {}
    case = v.get("input") or (data.get("correspondence_disagreements") or [{}])[0].get("case")
    if not case:
        print("nothing to replay")
        return 2
    case.setdefault("scope", "replay")
    print("implementation:", {k: v for k, v in common.run_impl(ctx, "C03", "impl_assemble", [case])[0].items() if k not in ("tv", "tm")})
    r = common.run_impl(ctx, "C03", "oracle_assemble", [case])[0]
    print("oracle:", r)
    return 1 if r else 0
