# coding: utf-8
"""C18 — letter case of the input sequences never changes the outcome."""
EXTRA_OBLIGATION_FILES = ("Props/C18_src.v", "Props/C04_src.v", "Props/C03_src.v",)

from harness import common, gens
from harness.props import C02, C03

LEVEL_NOTE = ("Theorems for every pattern and every re-spelling with the same codes: same match, same validity, texts "
              "equal up to case; assembly of re-spelled inputs gives the same outcome class, stalled overhang, duplicate "
              "pair and unused set, and a product equal up to case; regex.py/_assembly.py tied by comparing the "
              "implementation on lower-, upper- and per-letter mixed-case spellings with the model (which carries the "
              "case of every letter), and by an oracle against the all-upper-case baseline.")

IMPORTS = C02.IMPORTS


def recase(rng, s, mode):
    if mode == "lower":
        return s.lower()
    if mode == "upper":
        return s.upper()
    if mode == "random":
        return "".join(c.lower() if rng.random() < 0.5 else c.upper() for c in s)
    if mode == "site-mixed":      # mixed case concentrated in the first letters (the recognition site of a module)
        return "".join(c.lower() if (i < 12 and rng.random() < 0.5) else c for i, c in enumerate(s))
    return s


# ------------------------------------------------------------ worker side

def oracle_case(case):
    """every spelling reports what the upper-case spelling reports, up to case"""
    from harness import implutil
    cls = implutil.get_class(case["cls"])

    def info(seq):
        ent = cls(implutil.mk_circular(seq, "r"))
        t = implutil.typed_info(ent)
        return {k: (t.get(k).upper() if isinstance(t.get(k), str) else t.get(k)) for k in ("valid", "up", "down", "target", "placeholder")}
    base = info(case["seq"].upper())
    got = info(case["seq"])
    if got != base:
        diff = [f for f in base if base[f] != got[f]]
        return {"signature": "C18:typing-depends-on-case:" + ",".join(diff),
                "what": "%s: spelling %s reports %s, upper case reports %s"
                        % (cls.__name__, case["seq"][:50], {f: got[f] for f in diff}, {f: base[f] for f in diff})}
    return None


def impl_assembly(case):
    from harness import implutil
    out = implutil.run_assembly({"vector": case["vector"], "modules": case["modules"], "typed": False})
    up = implutil.run_assembly({"vector": dict(case["vector"], seq=case["vector"]["seq"].upper()),
                                "modules": [dict(m, seq=m["seq"].upper()) for m in case["modules"]], "typed": False})
    return {"obs": out, "upper": up}


# ------------------------------------------------------------ driver side

def run(ctx):
    ctx.rule = ("every kit class, generic classes over one enzyme per geometry and IUPAC-signature parts, each record in "
                "lower, upper, per-letter random and site-concentrated mixed case at 3 rotations; generated assemblies "
                "(complete, with a missing module, with a duplicate start, with a reverse-complementary start, with an unused module) over several enzymes with "
                "per-record and per-letter case assignments; non-trivial = accepted record / successful or clashing assembly")
    rng = ctx.rng
    cases = []
    for spec, seq, tag in C02.typing_subjects(ctx, per_kit=1 if ctx.quick else 3, per_enzyme=1 if ctx.quick else 2,
                                               parts=15 if ctx.quick else 80):
        n = len(seq)
        for mode in ("lower", "random", "site-mixed", "random"):
            s = recase(rng, seq, mode)
            cases.append({"cls": spec, "seq": s, "ks": [0, rng.randrange(0, n), rng.randrange(0, n)], "tag": tag + ":" + mode})
    obs, suspects = C02.eval_typing(ctx, cases)
    res = common.run_impl(ctx, "C18", "oracle_case", suspects + cases)
    for c, v in zip(suspects + cases, res):
        if v:
            ctx.violations.append(dict(v, input=c))
    # assemblies
    enzymes = {e["name"]: e for e in ctx.tables["enzymes"]}
    acases = []
    names = ["BsaI", "BpiI", "BsmBI", "SapI", "BtgZI", "HgaI", "AarI", "FokI"]
    for _ in range(120 if ctx.quick else 1500):
        enz = enzymes[rng.choice(names)]
        q = rng.choice([1, 2, 3, 4])
        ch = gens.gen_chain(rng, enz, q, tmax=6, bmax=4)
        if ch is None:
            continue
        mods = list(ch["modules"])
        kind = rng.choice(["complete", "complete", "missing", "duplicate", "rc-duplicate", "unused"])
        if kind == "missing" and q > 1:
            mods.pop(rng.randrange(0, q))
        elif kind == "duplicate":
            m0 = rng.choice(mods)
            d = gens.gen_module(rng, enz, m0["up"], rng.choice(mods)["down"], 3, 2)
            if d:
                mods.append(d)
        elif kind == "rc-duplicate":
            # a module whose start overhang is the reverse complement of another module's start (the second clash of C03)
            m0 = rng.choice(mods)
            d = gens.gen_module(rng, enz, gens.rc(m0["up"]), rng.choice(mods)["down"], 3, 2)
            if d:
                mods.append(d)
        elif kind == "unused":
            ohs = gens.distinct_overhangs(rng, enz, 2)
            used = {m["up"] for m in mods} | {gens.rc(m["up"]) for m in mods} | {ch["vector"]["up"], ch["vector"]["down"]}
            if ohs and ohs[0] not in used and gens.rc(ohs[0]) not in used:
                d = gens.gen_module(rng, enz, ohs[0], ohs[1], 3, 2)
                if d:
                    mods.append(d)
        rng.shuffle(mods)
        mode = rng.choice(["per-record", "per-record", "random", "lower", "site-mixed"])

        def rs(el):
            s = gens.reorigin(rng, el)
            if mode == "per-record":
                return recase(rng, s, rng.choice(["lower", "upper"]))
            return recase(rng, s, mode)
        acases.append({"enz": enz["name"], "kind": kind, "mode": mode,
                       "vector": {"cls": gens.generic_spec("vector", enz), "seq": rs(ch["vector"])},
                       "modules": [{"cls": gens.generic_spec("module", enz), "seq": rs(m)} for m in mods]})
    aobs = common.run_impl(ctx, "C18", "impl_assembly", acases)
    aterms = []
    for c, o in zip(acases, aobs):
        ctx.evaluations += 1
        ctx.count("assembly:" + c["kind"])
        ctx.count("case-mode:" + c["mode"])
        a, u = o["obs"], o["upper"]
        if a["out"] in ("product", "duplicate"):
            ctx.nontriv([c["vector"]["seq"], [m["seq"] for m in c["modules"]]])
        same = a["out"] == u["out"]
        if same and a["out"] == "product":
            same = a["seq"].upper() == u["seq"].upper() and a["unused"] == u["unused"]
        elif same and a["out"] == "missing":
            same = a["oh"].upper() == u["oh"].upper()
        elif same and a["out"] == "duplicate":
            same = sorted(a["ids"]) == sorted(u["ids"])
        if not same:
            ctx.violations.append({"signature": "C18:assembly-depends-on-case:%s-for-%s" % (a["out"], u["out"]),
                                   "what": "mixed-case inputs give %s, the upper-case inputs give %s"
                                           % ({k: a.get(k) for k in ("out", "oh", "ids", "unused")},
                                              {k: u.get(k) for k in ("out", "oh", "ids", "unused")}), "input": c})
        aterms.append(C03.c_raw(ctx, c, a))
    abad = common.coq_eval_cases(ctx, "asm", IMPORTS, aterms, "check_raw", per_file=200)
    for b in abad:
        ctx.disagreements.append({"case": acases[b], "impl": aobs[b]["obs"],
                                  "observable": "outcome / product of vector.assemble on mixed-case inputs vs Pipeline.assemble_raw",
                                  "model_fn": "Pipeline.assemble_raw"})


def replay(ctx, data):
    v = data.get("violation") or {}
    case = v.get("input") or (data.get("correspondence_disagreements") or [{}])[0].get("case")
    if not case:
        print("nothing to replay")
        return 2
    if "vector" in case:
        o = common.run_impl(ctx, "C18", "impl_assembly", [case])[0]
        print("mixed:", {k: o["obs"].get(k) for k in ("out", "seq", "oh", "ids")})
        print("upper:", {k: o["upper"].get(k) for k in ("out", "seq", "oh", "ids")})
        a, u = o["obs"], o["upper"]
        return 0 if (a["out"] == u["out"] and a.get("seq", "").upper() == u.get("seq", "").upper()) else 1
    r = common.run_impl(ctx, "C18", "oracle_case", [case])[0]
    print("oracle:", r)
    return 1 if r else 0
