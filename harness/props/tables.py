# coding: utf-8
"""Worker side of gen_tables: introspect the kits of the scratch copy."""
import importlib
import io
import tarfile

KITS = ["ytk", "cidar", "ecoflex", "moclo", "plant"]


def enzyme_geometry(cutter):
    """(site, off, ovh) if the cutter belongs to the supported family, else None."""
    try:
        site = str(cutter.site)
        size = len(site)
        if not site or any(c not in "ACGT" for c in site):
            return None
        if cutter.is_palindromic() or not cutter.cut_once() or not cutter.is_5overhang():
            return None
        off = cutter.fst5 - size
        ovh = -cutter.ovhg
        if off < 0 or ovh < 1:
            return None
        if cutter.fst3 != off + ovh:
            return None
        if cutter.elucidate() != site + "N" * off + "^" + "N" * ovh + "_N":
            return None
        if str(cutter.ovhgseq) != "N" * ovh:
            return None
        return {"name": cutter.__name__, "site": site, "off": off, "ovh": ovh}
    except Exception:
        return None


def dump_tables(_):
    from Bio import Restriction
    from moclo.core import AbstractModule, AbstractVector, AbstractPart
    from moclo.core._structured import StructuredRecord
    from moclo._utils import isabstract
    for k in KITS:
        importlib.import_module("moclo.kits." + k)
    seen = []

    def walk(c):
        for s in c.__subclasses__():
            if s not in seen:
                seen.append(s)
                walk(s)
    walk(StructuredRecord)
    classes = []
    for c in seen:
        if not c.__module__.startswith("moclo.kits."):
            continue
        ent = {"name": c.__name__, "kit": c.__module__.split(".")[-1],
               "abstract": bool(isabstract(c)),
               "mro": [b.__name__ for b in c.__mro__ if b is not object],
               "subs": [s.__name__ for s in c.__subclasses__()],
               "is_part": issubclass(c, AbstractPart),
               "role": "module" if issubclass(c, AbstractModule) else ("vector" if issubclass(c, AbstractVector) else None)}
        cutter = getattr(c, "cutter", NotImplemented)
        ent["cutter"] = None if cutter is NotImplemented else enzyme_geometry(cutter)
        ent["cutter_name"] = None if cutter is NotImplemented else cutter.__name__
        sig = getattr(c, "signature", NotImplemented)
        ent["signature"] = None if sig is NotImplemented or sig is None else [str(sig[0]), str(sig[1])]
        # which structure() does the class use
        owner = None
        for b in c.__mro__:
            if "structure" in b.__dict__:
                owner = b.__name__
                break
        ent["structure_owner"] = owner
        try:
            ent["structure"] = None if ent["abstract"] else c.structure()
        except Exception as e:  # noqa
            ent["structure"] = None
            ent["structure_error"] = repr(e)
        classes.append(ent)
    enzymes = []
    for name in sorted(Restriction.AllEnzymes.elements()):
        g = enzyme_geometry(getattr(Restriction, name))
        if g:
            enzymes.append(g)
    return {"classes": classes, "enzymes": enzymes}


def dump_registries(_):
    """(member name, record id, resistance, entity class) of every embedded archive."""
    import pkg_resources
    import Bio.SeqIO
    from moclo.registry.base import EmbeddedRegistry
    from moclo.registry._utils import find_resistance
    out = []
    for mod in ["ytk", "cidar", "ecoflex", "plant"]:
        m = importlib.import_module("moclo.registry." + mod)
        for nm in dir(m):
            cls = getattr(m, nm)
            if isinstance(cls, type) and issubclass(cls, EmbeddedRegistry) and cls is not EmbeddedRegistry \
                    and cls.__module__ == m.__name__:
                reg = cls()
                entries = []
                with pkg_resources.resource_stream(reg._module, reg._file) as rs:
                    with tarfile.open(mode="r:gz", fileobj=rs) as tar:
                        for entry in iter(tar.next, None):
                            rec = Bio.SeqIO.read(io.TextIOWrapper(tar.extractfile(entry)), "gb")
                            try:
                                res = find_resistance(rec)
                            except RuntimeError:
                                res = None
                            entries.append({"member": entry.name, "id": rec.id, "resistance": res,
                                            "isfile": entry.isfile(),
                                            "labels": [(list(f.qualifiers["label"]) if "label" in f.qualifiers else None)
                                                       for f in rec.features]})
                out.append({"registry": cls.__name__, "module": mod, "entries": entries})
    return out
